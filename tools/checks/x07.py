"""X07 (extension) Discrete-process and model selection of the physics step.

spec/PhysSelect.tla       reference semantics: PhysicsParams' process/model groups (tiling of the model
                          energy ranges, at-rest flag, integral-xs energy of the maximum), the per-track MFP
                          (reset / set / decrement), calc_physics_step_limit (per-process xs, total, MFP vs
                          range vs fixed limiter and the action that names the limit), select_discrete_interaction
                          (Selector: first process whose cumulative xs exceeds u*total; integral rejection;
                          GridIdFinder model lookup at the post-step energy; TabulatedElementSelector)
spec/PhysSelectMC.tla     design check: one track through EVERY sampled distance / step outcome / uniform for a
                          list of configurations (hand-picked edge cases + seeded); invariants; eight seeded
                          design mutants that MUST be refuted; emits the replay scenarios
harness/vphysselect.cc    api : the real PhysicsParams / PhysicsTrackView / PhysicsStepUtils built from hand-made
                                Process / Model classes with plateau tables (exact small integers), scripted
                                32-bit engine through the production GenerateCanonical32
                          loop: the real stepping loop on the hand-built EM problem, observers around pre-step,
                                along-step, discrete-select and post-step
spec/PhysSelectTrace.tla  every logged call / track-step must be explained by PhysSelect.tla
"""
import json
import os
import random
import re
import time
import concurrent.futures as cf

import vlib

LEVEL = "model_checking"

MUTANTS = ("sel_ge", "model_upper", "rej_all", "rej_flip", "dec_never", "disc_late", "nosample", "fixed_le")
D = 8
LS = 2
NPART = 3
NMAT = 2


# ----------------------------------------------------------------------------- configurations
def _proc(label, integral, models, xs, eloss):
    """models: [(label, micro, [(pt, lo, hi)...])]; xs/eloss: {pt: [tab_mat0, tab_mat1]}"""
    def tabs(t):
        return [t.get(pt, []) for pt in range(NPART)]
    return {"label": label, "integral": integral,
            "models": [{"label": ml, "micro": mi, "apps": [{"pt": p, "lo": lo, "hi": hi} for (p, lo, hi) in apps]}
                       for (ml, mi, apps) in models],
            "xs": tabs(xs), "eloss": tabs(eloss)}


def _cfg(cid, nl, procs, d=1, fixed=0, alpha1=False, disable_integral=False, note=""):
    return {"id": cid, "nl": nl, "d": d, "fixed": fixed, "alpha1": alpha1, "disable_integral": disable_integral,
            "procs": procs, "note": note}


def _hand_configs():
    """Edge configurations (levels 1..4 at positions 3,5,7,9; grid points at the even positions)."""
    cfgs = []
    mic = [[1, 1, 3, 0], [1, 0, 1, 0]]
    # gamma: two processes, a model boundary exactly at a level energy (5) and one between levels (8),
    # totals 2, 4, 8 (exact ties with u = a/8); electron: integral process peaked in the middle, range;
    # positron: shares the electron model (two applicabilities) + an at-rest process from zero energy
    base = [
        _proc("pA", False,
              [("mA1", [], [(0, 2, 5)]), ("mA2", mic, [(0, 5, 8)]), ("mA3", [], [(0, 8, 9)])],
              {0: [[1, 2, 3, 1], [2, 2, 1, 3]]}, {}),
        _proc("pB", False, [("mB1", mic, [(0, 4, 10)])], {0: [[0, 2, 5, 3], [0, 2, 3, 1]]}, {}),
        _proc("pC", True, [("mC1", [], [(1, 0, 6), (2, 0, 6)]), ("mC2", mic, [(1, 6, 11), (2, 6, 11)])],
              {1: [[1, 3, 1, 2], [2, 1, 4, 1]], 2: [[0, 1, 2, 1], [0, 2, 2, 2]]},
              {1: [[2, 4, 6, 8], [1, 2, 3, 4]], 2: [[2, 4, 6, 8], [2, 2, 4, 4]]}),
        _proc("pD", False, [("mD1", [], [(1, 4, 9)])], {1: [[0, 1, 1, 2], [0, 3, 1, 1]]}, {}),
        _proc("pE", True, [("mE1", [], [(2, 0, 12)])], {2: [[3, 2, 1, 1], [1, 1, 1, 1]]}, {}),
    ]
    cfgs.append(_cfg(1, 4, base, d=1, note="base"))
    cfgs.append(_cfg(2, 4, base, d=2, fixed=3, note="xi two levels down, fixed limiter"))
    cfgs.append(_cfg(3, 4, base, d=1, alpha1=True, disable_integral=True, fixed=4,
                     note="integral approach disabled, range_to_step formula with alpha=1"))
    # a particle whose processes all vanish at some energies (total 0), single process, single level model
    lone = [
        _proc("pF", False, [("mF1", [], [(0, 5, 7)])], {0: [[0, 2, 1], [0, 1, 0]]}, {}),
        _proc("pG", True, [("mG1", [[1, 2, 1], [2, 0, 1]], [(1, 0, 7)])],
              {1: [[2, 1, 4], [4, 4, 4]]}, {1: [[1, 2, 3], [3, 3, 3]]}),
    ]
    cfgs.append(_cfg(4, 3, lone, d=1, fixed=2, note="vanishing totals, top-closed model range"))
    return cfgs


def _refused_configs(first_id):
    """Inputs PhysicsParams must refuse (and near misses it must accept)."""
    def one(models, xs=None, eloss=None):
        return [_proc("pA", False, models, xs if xs is not None else {0: [[1, 1, 1], [1, 1, 1]]}, eloss or {}),
                _proc("pZ", False, [("mZ1", [], [(1, 0, 9)])], {1: [[1, 1, 1], [1, 1, 1]]}, {})]
    cases = [
        ("gap", one([("m1", [], [(0, 2, 4)]), ("m2", [], [(0, 5, 8)])])),
        ("overlap", one([("m1", [], [(0, 2, 6)]), ("m2", [], [(0, 5, 8)])])),
        ("duplicate", one([("m1", [], [(0, 2, 6)]), ("m2", [], [(0, 2, 6)])])),
        ("nested", one([("m1", [], [(0, 2, 8)]), ("m2", [], [(0, 2, 4)])])),
        ("unordered-ok", one([("m1", [], [(0, 5, 8)]), ("m2", [], [(0, 2, 5)])])),
        ("gap-other-particle", one([("m1", [], [(0, 2, 8), (2, 2, 4)]), ("m2", [], [(2, 5, 8)])],
                                   xs={0: [[1, 1, 1], [1, 1, 1]], 2: [[0, 1, 1], [0, 1, 1]]})),
        ("neither-table", one([("m1", [], [(0, 2, 8), (2, 2, 8)])])),
        ("neither-in-one-material", one([("m1", [], [(0, 2, 8)])], xs={0: [[1, 1, 1]]})),
        ("eloss-only-ok", one([("m1", [], [(0, 2, 8), (2, 2, 8)])], eloss={2: [[1, 2, 3], [1, 2, 3]]})),
    ]
    return [_cfg(first_id + i, 3, procs, note=name) for i, (name, procs) in enumerate(cases)]


def _random_config(rng, cid):
    nl = rng.choice([3, 4])
    top_level = 2 * nl + 1
    nproc = rng.randint(2, 4)
    # which particle has a continuous-loss process, and which process carries it
    eloss_owner = {}
    plan = []
    for i in range(nproc):
        pts = sorted(rng.sample(range(NPART), rng.choice([1, 1, 2])))
        plan.append(pts)
    for pt in (1, 2):
        cand = [i for i, pts in enumerate(plan) if pt in pts]
        if cand and rng.random() < 0.8:
            eloss_owner[pt] = rng.choice(cand)
    procs = []
    for i, pts in enumerate(plan):
        label = "p" + "ABCD"[i]
        nmod = rng.choice([1, 1, 2, 3])
        xs, eloss, bounds = {}, {}, {}
        for pt in pts:
            can_stop = pt in eloss_owner
            lo = rng.choice([0, 0, 2, 3, 4, 5] if can_stop else [0, 2, 3, 4, 5])
            hi = rng.choice([top_level, top_level + 1, top_level + 3, top_level - 2])
            inner = [p for p in range(lo + 1, hi)]
            if len(inner) < nmod - 1 or hi <= lo:
                lo, hi, inner = 0, top_level + 1, list(range(1, top_level + 1))
            cuts = sorted(rng.sample(inner, nmod - 1))
            bounds[pt] = [lo] + cuts + [hi]
            tabs = []
            for mat in range(NMAT):
                while True:
                    t = [rng.choice([0, 1, 1, 2, 2, 3, 4]) for _ in range(nl)]
                    for k in range(1, nl + 1):
                        if not (lo <= 2 * k + 1 <= hi):
                            t[k - 1] = 0
                    if can_stop and lo > 0:
                        t[0] = 0
                    if any(t):
                        break
                    if not any(lo <= 2 * k + 1 <= hi and not (can_stop and lo > 0 and k == 1) for k in range(1, nl + 1)):
                        t = None
                        break
                tabs.append(t)
            if any(t is None for t in tabs):
                # no usable level inside the range: widen it
                bounds[pt] = [0] + cuts + [top_level + 1] if not cuts or cuts[0] > 0 else [0, top_level + 1]
                if len(bounds[pt]) != nmod + 1:
                    bounds[pt] = [0] + sorted(rng.sample(range(1, top_level + 1), nmod - 1)) + [top_level + 1]
                tabs = [[rng.choice([1, 2, 3]) for _ in range(nl)] for _ in range(NMAT)]
            xs[pt] = tabs
            if eloss_owner.get(pt) == i:
                r0 = [rng.randint(1, 8) for _ in range(nl)]
                eloss[pt] = [r0, [rng.randint(1, 8) for _ in range(nl)]]
        models = []
        for j in range(nmod):
            micro = []
            if rng.random() < 0.5:
                micro = [[rng.randint(0, 3) for _ in range(nl)], [rng.randint(0, 3) for _ in range(nl)]]
            models.append(("m%s%d" % ("ABCD"[i], j + 1), micro, [(pt, bounds[pt][j], bounds[pt][j + 1]) for pt in pts]))
        integral = any(pt in eloss_owner for pt in pts) and rng.random() < 0.7
        procs.append(_proc(label, integral, models, xs, eloss))
    return _cfg(cid, nl, procs, d=rng.choice([1, 1, 2]), fixed=rng.choice([0, 0, 2, 3, 5]),
                alpha1=rng.random() < 0.3, disable_integral=rng.random() < 0.15, note="seeded")


def gen_configs(seed, nrandom):
    rng = random.Random(seed * 7919 + 17)
    cfgs = _hand_configs()
    cfgs += [_random_config(rng, 100 + i) for i in range(nrandom)]
    cfgs += _refused_configs(900)
    return cfgs


# ----------------------------------------------------------------------------- design check
def _summary(r):
    m = re.search(r'<<"SUMMARY", "(.*)">>', r.out)
    if not m:
        return None
    return json.loads(m.group(1).replace('\\"', '"'))


def _scenarios_of(out):
    res = {}
    for m in re.finditer(r'<<"SCEN", "(.*)">>', out):
        s = json.loads(m.group(1).replace('\\"', '"'))
        res[(s["c"], s["pt"], s["mat"], s["e0"], s["m"])] = s
    return [res[k] for k in sorted(res)]


def _mc_cfg(ctx, base, consts):
    with open(os.path.join(vlib.SPEC, base + ".cfg")) as fh:
        txt = fh.read()
    for k, v in consts.items():
        txt, n = re.subn(r"(?m)^(\s*%s\s*=\s*).*$" % re.escape(k), lambda m: m.group(1) + str(v), txt)
        if n != 1:
            raise vlib.Broken("constant %s not found in %s.cfg" % (k, base))
    path = ctx.path(base + ".cfg")
    with open(path, "w") as fh:
        fh.write(txt)
    return path


def _design(ctx, cfgs_path, dv):
    consts = {} if ctx.quick else {"MaxSteps": 3, "D": dv}
    main = vlib.tlc("PhysSelectMC", _mc_cfg(ctx, "PhysSelectMC", consts), workers=4, timeout=6000, heap="6g",
                    env={"CFGS": cfgs_path}, coverage=not ctx.quick)
    if main.ok and not ctx.quick:
        # -coverage 1: no action of the design model may be dead
        dead = [a for a in ("Pick", "PreStep", "Along", "SelectStep", "Post") if main.coverage.get(a, 0) == 0]
        if dead:
            raise vlib.Broken("PhysSelectMC: actions never taken: %s" % dead)
    if main.code != 0:
        if main.violated:
            ctx.violation("design model PhysSelectMC violates %s:\n%s" % (main.violated_names(), main.out[-2500:]),
                          tags={"design": "PhysSelectMC"})
            return main, []
        raise vlib.Broken("TLC failed on PhysSelectMC (exit %d):\n%s" % (main.code, main.out[-3000:]))
    return main, _scenarios_of(main.out)


# ----------------------------------------------------------------------------- loop runs
def _unit(rng):
    import math
    cz = 2 * rng.random() - 1
    ph = 2 * math.pi * rng.random()
    sz = math.sqrt(max(0.0, 1 - cz * cz))
    return [sz * math.cos(ph), sz * math.sin(ph), cz]


def _loop_runs(seed, n):
    rng = random.Random(seed * 104729 + 5)
    runs = []
    for i in range(n):
        prims = []
        rich = (i % 2 == 0)
        if rich:
            # e-/e+ just above the 0.25 MeV threshold of the ionisation cross section, in the dense box, with
            # large cross sections: discrete interactions whose post-step cross section is smaller
            # (integral rejection), positrons that stop and annihilate at rest
            for k in range(16):
                prims.append(dict(ev=k % 2, pt=1 + (k % 2), E=0.26 + 0.3 * rng.random(),
                                  pos=[3.0 * (2 * rng.random() - 1) for _ in range(3)], dir=_unit(rng)))
            scale, dedx = 5.0, rng.choice([0.5, 1.0])
        else:
            for k in range(rng.randint(6, 12)):
                pt = (0, 0, 1, 1, 2, 2)[rng.randrange(6)]
                E = 0.05 * (40 / 0.05) ** rng.random()
                r = 4.5 if rng.random() < 0.75 else 30.0
                prims.append(dict(ev=k % 2, pt=pt, E=E, pos=[r * (2 * rng.random() - 1) for _ in range(3)], dir=_unit(rng)))
            scale, dedx = rng.choice([0.5, 1.0, 2.0, 5.0]), rng.choice([1.0, 2.0, 4.0])
        fixed = 0.0 if rich else rng.choice([0.0, 0.05, 0.3])
        # (with a fixed step limiter the tracks in the thin world material take thousands of short steps: cap)
        runs.append(dict(id=1000 + i, prims=prims, slots=rng.choice([2, 4, 8]), rng_seed=rng.randrange(1, 1 << 30),
                         table_scale=scale, dedx=dedx, fixed_step=fixed, fluct=(i % 4 == 3),
                         maxiters=60 if fixed else 1500))
    return runs


def _harness(ctx, mode, name, payload):
    inp = ctx.path(name + ".in.json")
    out = ctx.path(name + ".ndjson")
    with open(inp, "w") as fh:
        json.dump(payload, fh, separators=(",", ":"))
    r = vlib.run_harness("vphysselect", [mode, inp, out], timeout=1200, check=False)
    if r.returncode != 0 or not os.path.exists(out):
        # a crash / hang inside the code under test: keep what was written; no Close -> rejected trace
        if r.returncode == 124 or r.returncode < 0 or r.returncode == 3:
            with open(out, "a") as fh:
                fh.write("\n" + json.dumps({"e": "Abort", "what": "vphysselect exit %d" % r.returncode}) + "\n")
        else:
            raise vlib.Broken("vphysselect %s %s failed (exit %d): %s" % (mode, inp, r.returncode, (r.stderr or "")[-2000:]))
    return out


def _record(path, k):
    try:
        with open(path) as fh:
            for i, line in enumerate(fh, 1):
                if i == k:
                    return line.strip()
    except OSError:
        pass
    return ""


def _explain(path, clause, k):
    """Human-readable input of the record that violated a clause (the spec decided, not this)."""
    line = _record(path, k)
    try:
        r = json.loads(line)
    except ValueError:
        return line[:800]
    if r.get("e") == "Pre":
        head = {x: r[x] for x in ("c", "pt", "mat", "e0", "m", "pp", "tot", "step", "stepinf", "act", "rng", "m1",
                                  "hm0", "hm1", "inexact")}
        return "Pre %s first selections %s" % (json.dumps(head), json.dumps(r["sel"][:4]))
    if r.get("e") == "Config":
        return "Config id %s note %r built %s what %s" % (r["cfg"]["id"], r["cfg"].get("note"), r["built"],
                                                         r.get("what", "")[:200])
    return line[:1200]


def run(ctx):
    vlib.build(["vphysselect"])
    q = ctx.quick
    t0 = time.time()
    cfgs = gen_configs(ctx.seed, 5 if q else 16)
    cfgs_path = ctx.path("cfgs.json")
    with open(cfgs_path, "w") as fh:
        json.dump(cfgs, fh)
    mut_path = ctx.path("cfgs_hand.json")
    with open(mut_path, "w") as fh:
        json.dump(_hand_configs(), fh)
    dv = D if q else 16      # uniforms a/dv
    main, scen = _design(ctx, cfgs_path, dv)
    vlib.log("X07 design check: %d states, %d transitions, %d scenarios, %.0fs"
             % (main.distinct, main.generated, len(scen), time.time() - t0))
    if ctx.violations:
        return
    if not scen:
        raise vlib.Broken("PhysSelectMC emitted no replay scenario")

    # ------------------------------------------------------------------ harness runs
    t0 = time.time()
    nsh = 4
    byc = {}
    for s in scen:
        byc.setdefault(s["c"], []).append(s)
    # balance the shards by the number of selections
    shards = [[] for _ in range(nsh)]
    load = [0] * nsh
    for c in sorted(cfgs, key=lambda c: -sum(len(x["sel"]) for x in byc.get(c["id"], []))):
        k = load.index(min(load))
        shards[k].append(c)
        load[k] += 1 + sum(len(x["sel"]) for x in byc.get(c["id"], []))
    jobs = []
    for i, sh in enumerate(shards):
        ids = {c["id"] for c in sh}
        jobs.append(("api", "api%02d" % i, {"D": dv, "LS": LS, "cfgs": sh,
                                            "scen": [s for cid in sorted(ids) for s in byc.get(cid, [])]}))
    lruns = _loop_runs(ctx.seed, 10 if q else 120)
    nls = 2 if q else 8
    for i in range(nls):
        jobs.append(("loop", "loop%02d" % i, {"runs": lruns[i::nls]}))
    with cf.ThreadPoolExecutor(max_workers=4) as ex:
        outs = list(ex.map(lambda j: _harness(ctx, j[0], j[1], j[2]), jobs))
    nsel = sum(len(s["sel"]) for s in scen)
    vlib.log("X07 harness: %d configurations, %d pre-step scenarios, %d selections, %d loop runs, %.0fs"
             % (len(cfgs), len(scen), nsel, len(lruns), time.time() - t0))

    # ------------------------------------------------------------------ trace validation
    t0 = time.time()
    tj = [dict(module="PhysSelectTrace", cfg="PhysSelectTrace", workers=1, env={"TRACE": p}, timeout=3000, heap="3g")
          for p in outs]
    # the design mutants (vacuity guard) run on the hand-picked configurations, alongside the validations
    mutants = MUTANTS[::2] if q else MUTANTS     # quick: sel_ge, rej_all, dec_never, nosample
    tj += [dict(module="PhysSelectMC", cfg="PhysSelectMC_mut_" + v, workers=1, timeout=900, heap="2g",
                env={"CFGS": mut_path}) for v in mutants]
    results = vlib.tlc_parallel(tj, maxpar=4)
    refuted = {}
    for v, r in zip(mutants, results[len(outs):]):
        names = re.findall(r"Invariant (\w+) is violated", r.out)
        if not names:
            raise vlib.Broken("vacuity guard: design mutant %s was not refuted (exit %d)\n%s" % (v, r.code, r.out[-1500:]))
        refuted[v] = names[0]
    vlib.log("X07 trace validation + design mutants %s: %.0fs (per job %s)"
             % (refuted, time.time() - t0, " ".join("%.0f" % r.wall for r in results)))
    results = results[:len(outs)]
    stat, cnt = {}, {}
    samples = []
    for (mode, name, payload), path, r in zip(jobs, outs, results):
        summ = _summary(r)
        if r.code != 0 or summ is None:
            if "REJECTED" in r.out or r.violated:
                ctx.violation("trace %s is not a behaviour of PhysSelectTrace:\n%s" % (name, vlib.rejected_info(r)),
                              tags={"structural": "rejected"}, files=[path, ctx.path(name + ".in.json")])
                continue
            raise vlib.Broken("TLC failed on %s (exit %d):\n%s" % (name, r.code, r.out[-3000:]))
        for k, v in summ["stat"].items():
            stat[(mode + ":" + k)] = stat.get(mode + ":" + k, 0) + v
        c = summ["cnt"] if isinstance(summ["cnt"], dict) else {}
        firsts = {}
        for clause, line in summ["viol"]:
            firsts.setdefault(clause, []).append(line)
        for clause, n in sorted(c.items()):
            cnt[clause] = cnt.get(clause, 0) + n
            ex = "\n".join("record %d: %s" % (k, _explain(path, clause, k)) for k in sorted(firsts.get(clause, []))[:2])
            ctx.violation("clause %s violated by %d record(s) of %s (vphysselect %s %s)\n%s"
                          % (clause, n, name, mode, ctx.path(name + ".in.json"), ex),
                          tags={"clause": clause, "mode": mode}, files=[path, ctx.path(name + ".in.json")])
        if mode == "api" and len(samples) < 4:
            line = _record(path, 4)
            if line:
                rec = json.loads(line)
                if rec.get("e") == "Pre":
                    rec["sel"] = rec["sel"][:3]
                    samples.append(rec)
    # vacuity: the runs must have exercised what the clauses talk about
    if not ctx.violations:
        need = {"api:built": 6, "api:refused": 5, "api:pre": 300, "api:sel": 5000, "api:rejected": 100,
                "api:element2": 50, "api:selties": 50, "api:stopped": 3, "api:atrest_sel": 10, "api:steptie": 3,
                "api:act:physics-discrete-select": 50, "api:act:eloss-range": 50, "api:act:physics-fixed-step": 10,
                "api:act:none": 1,
                "loop:steps": 500, "loop:discrete": 50, "loop:rejected": 3, "loop:carried": 100,
                "loop:decremented": 100, "loop:forced": 1, "loop:emaxbranch": 10,
                "loop:lact:physics-fixed-step": 10, "loop:lact:eloss-range": 50}
        low = {k: stat.get(k, 0) for k, v in need.items() if stat.get(k, 0) < v}
        if low:
            raise vlib.Broken("X07 binding is vacuous: too few records of kind %s (need %s)" % (low, need))
    ctx.coverage.update({
        "states": main.distinct, "transitions": main.generated,
        "traces_validated_against_impl": len(outs),
        "samples": samples or [{"note": "no sample"}],
        "evaluations": stat.get("api:sel", 0) + stat.get("api:pre", 0) + stat.get("loop:steps", 0),
        "distinct_nontrivial": len(scen),
        "rule": "states/transitions: PhysSelectMC exhaustive within its constants for the generated configurations "
                "(every start energy, sampled distance, step outcome, uniform a/%d); api = EVERY first pre-step state "
                "with floating-point-exact numbers emitted by that run and EVERY selection input reachable from it is "
                "replayed on the real PhysicsParams/PhysicsTrackView/PhysicsStepUtils; loop = seeded runs of the real "
                "stepping loop; evaluations = selections + pre-steps + loop track-steps validated by TLC; "
                "distinct_nontrivial = distinct replayed pre-step scenarios" % dv,
        "exhaustive": True,
        "configurations": len(cfgs), "scenarios_replayed": len(scen), "selections_replayed": nsel,
        "loop_runs": len(lruns), "impl_stats": stat, "clause_counts": cnt, "design_mutants_refuted": refuted,
        "design_action_coverage": {a: main.coverage.get(a, 0) for a in ("Pick", "PreStep", "Along", "SelectStep", "Post")
                                   if main.coverage},
    })
    ctx.assumptions += [
        "api mode: hand-made Process/Model classes with plateau tables on the grid 1,2,4,.. MeV (XsCalculator/RangeCalculator "
        "return the tabulated integers exactly; the harness counts inexact values and the spec demands zero); "
        "min_range 1e6 cm or max_step_over_range 1 make range_to_step the identity (its formula is C14's subject)",
        "uniforms a/%d (a=%d: largest double below one) enter through a scripted 32-bit engine and the production "
        "GenerateCanonical32" % (dv, dv),
        "precondition XsWithinModels (PhysSelect.tla): a process' cross section vanishes at every track energy outside its "
        "model ranges; selections that would find no model (NoModelOnlyAtEdge) are not replayed (undefined behaviour in a "
        "release build)",
        "hardwired on-the-fly cross sections (e+ annihilation) are exercised only in loop mode (probed through calc_xs); "
        "Livermore PE / CHIPS are not exercised",
        "loop mode: MSC off, linear propagation; the candidates mfp/total and mfp - step*total are formed by the harness from "
        "logged values (brackets 1e-12 relative); total = sum of per-process xs checked in quanta of 2^-24 of the largest",
        "build has CELERITAS_DEBUG=OFF (release behaviour; CELER_ASSERT/EXPECT are not evaluated)",
    ]
