#!/bin/sh
# tools/confirm_seed.sh <Cnn[_suffix]> <seeded-dir> <ctest-regex>: lead's confirmation of a seeded change:
# existing tests on the changed build tree, demo on changed and on unchanged sources.
id="$1"; sd="$2"; rx="$3"
WTd=/tmp/mut_$id; B=/tmp/mut_${id}_build
echo "== existing tests on changed tree ($rx)"
(cd $B && ctest -R "$rx" -j4 --timeout 900 2>&1 | grep -E "tests passed|tests failed|Failed|Timeout" | head -8)
echo "== demo on changed"
(cd $sd/demo && DEMO_OUT=$(mktemp -d /tmp/cs_XXXX) WT=$WTd BUILD=$B sh ./run.sh > /tmp/cs_${id}_mut.log 2>&1; echo "exit=$?"; tail -2 /tmp/cs_${id}_mut.log | cut -c1-300)
echo "== demo on unchanged"
(cd $sd/demo && DEMO_OUT=$(mktemp -d /tmp/cs_XXXX) WT=/repo BUILD=/verif/build/rel/celeritas sh ./run.sh > /tmp/cs_${id}_base.log 2>&1; echo "exit=$?"; tail -2 /tmp/cs_${id}_base.log | cut -c1-300)
