#!/bin/sh
# tools/confirm_seed.sh <name> <seeded-dir> <ctest-regex> [unchanged-build-dir]: lead's confirmation of a
# seeded change: existing tests on the changed build tree /tmp/mut_<name>_build, the demo on the changed
# sources (/tmp/mut_<name>) and on the unchanged sources (/repo; build dir default /verif/build/rel/celeritas,
# use /repo/_build for demos that link the test-harness libraries).
id="$1"; sd="$2"; rx="$3"; UB="${4:-/verif/build/rel/celeritas}"
WTd=/tmp/mut_$id; B=/tmp/mut_${id}_build
echo "== existing tests on changed tree ($rx)"
(cd $B && ctest -R "$rx" -j4 --timeout 900 2>&1 | grep -E "tests passed|tests failed|Failed|Timeout" | head -8)
echo "== demo on changed"
(cd $sd/demo && WT=$WTd BUILD=$B sh ./run.sh > /tmp/cs_${id}_mut.log 2>&1; echo "exit=$?"; tail -2 /tmp/cs_${id}_mut.log | cut -c1-300)
echo "== demo on unchanged"
(cd $sd/demo && WT=/repo BUILD=$UB sh ./run.sh > /tmp/cs_${id}_base.log 2>&1; echo "exit=$?"; tail -2 /tmp/cs_${id}_base.log | cut -c1-300)
