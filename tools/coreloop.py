"""Shared runner for the stepping-loop properties (C01 C02 C05 C16 C17).

design():   TLC model-checks the design model spec/CoreLoopMC (exhaustive within its constants).
validate(): runs harness/vsim over a matrix of configurations, concatenates the recorded runs
            into a few trace files and validates them with TLC against spec/CoreLoopTrace.
            The trace spec accumulates the names of violated clauses ("Cnn.Clause"); a check
            reports the clauses of *its* property (a structurally rejected trace is reported by
            every check, because then nothing was decided).
"""
import json
import os
import re
import vlib


def cfg_args(c):
    return ["%s=%s" % (k, v) for k, v in sorted(c.items())]


def run_vsim(ctx, idx, c, timeout=300):
    out = ctx.path("run%03d.ndjson" % idx)
    r = vlib.run_harness("vsim", [out] + cfg_args(c), timeout=timeout, check=False)
    if r.returncode == 124:
        # the harness itself hung (no progress inside one Stepper call): that is a liveness failure
        with open(out, "w") as fh:
            fh.write(json.dumps({"e": "Config", "nslots": 1, "initcap": 1, "seccap": 99, "parts": [], "cbs": [],
                                 "stepbins": 0, "order": "none", "msc": False, "field": False}) + "\n")
            fh.write(json.dumps({"e": "Ranks", "zeroE": 0, "zeroT": 0, "zeroL": 0}) + "\n")
            fh.write(json.dumps({"e": "Abort", "what": "vsim timed out after %ds" % timeout}) + "\n")
    elif r.returncode < 0:
        # the code under test crashed the harness (signal): an observed event the spec never enables
        with open(out, "w") as fh:
            fh.write(json.dumps({"e": "Config", "nslots": 1, "initcap": 1, "seccap": 99, "parts": [], "cbs": [],
                                 "stepbins": 0, "order": "none", "msc": False, "field": False}) + "\n")
            fh.write(json.dumps({"e": "Ranks", "zeroE": 0, "zeroT": 0, "zeroL": 0}) + "\n")
            fh.write(json.dumps({"e": "Abort", "what": "vsim %s died with signal %d" % (" ".join(cfg_args(c)), -r.returncode)}) + "\n")
    elif r.returncode != 0 or not os.path.exists(out):
        raise vlib.Broken("vsim %s failed (exit %d): %s" % (cfg_args(c), r.returncode, r.stderr[-2000:]))
    return out


def validate(ctx, configs, prefixes, nshards=8, per_run_timeout=300):
    """Returns dict(stats).  Reports violations through ctx."""
    vlib.build(["vsim"])
    import concurrent.futures as cf
    with cf.ThreadPoolExecutor(max_workers=min(8, vlib.NCPU // 2)) as ex:
        outs = list(ex.map(lambda ic: run_vsim(ctx, ic[0], ic[1], per_run_timeout), enumerate(configs)))
    # concatenate into shards (each run = Config ... Close)
    groups = vlib.shards(list(range(len(configs))), nshards)
    jobs, files = [], []
    for gi, g in enumerate(groups):
        path = ctx.path("shard%02d.ndjson" % gi)
        with open(path, "w") as fh:
            for i in g:
                with open(outs[i]) as src:
                    fh.write(src.read())
        files.append(path)
        jobs.append(dict(module="CoreLoopTrace", cfg="CoreLoopTrace", workers=1, env={"TRACE": path},
                         timeout=3000, heap="6g"))
    results = vlib.tlc_parallel(jobs, maxpar=min(8, vlib.NCPU // 2))
    total = {"runs": 0, "steps": 0, "iters": 0, "delivered": 0, "tracks": 0, "errors": 0, "events": 0,
             "failures": 0, "inplace": 0, "tallies": 0}
    other = set()
    records = 0
    for gi, (g, r) in enumerate(zip(groups, results)):
        records += sum(1 for _ in open(files[gi]))
        m = re.search(r'<<"SUMMARY", "(.*)">>', r.out)
        if r.code != 0 or not m:
            if "REJECTED" in r.out or r.violated:
                ctx.violation("trace shard %d (runs %s) is not a behaviour of CoreLoopTrace:\n%s\nconfigs: %s"
                              % (gi, g, vlib.rejected_info(r), [cfg_args(configs[i]) for i in g][:4]),
                              tags={"structural": "rejected"}, files=[files[gi]])
                continue
            raise vlib.Broken("TLC failed on shard %d (exit %d):\n%s" % (gi, r.code, r.out[-3000:]))
        summ = json.loads(m.group(1).replace('\\"', '"'))
        for k in total:
            total[k] += summ["stat"].get(k, 0)
        for clause, line, run in summ["viol"]:
            ci = g[run - 1] if 0 < run <= len(g) else None
            desc = "clause %s violated at record %d of run %d (vsim %s)" % (
                clause, line, run, " ".join(cfg_args(configs[ci])) if ci is not None else "?")
            if any(clause.startswith(p) for p in prefixes):
                ctx.violation(desc, tags={"clause": clause,
                                          "slots": configs[ci].get("slots") if ci is not None else None},
                              files=[files[gi]] + ([outs[ci]] if ci is not None else []))
            else:
                other.add(clause)
    total["records"] = records
    total["other_property_clauses_seen"] = sorted(other)
    return total, outs


def sample_records(outs, kinds=("Post", "End"), n=3):
    samples = []
    for o in outs[:n]:
        try:
            with open(o) as fh:
                for line in fh:
                    r = json.loads(line)
                    if r.get("e") in kinds and (r.get("slots") or r.get("added")):
                        samples.append({"run": os.path.basename(o), "record": r})
                        break
        except OSError:
            pass
    return samples


def design(ctx, cfgs):
    """Model-check the design model (configs in parallel).  cfgs: list of (cfgname, workers).
    Returns (states, transitions)."""
    st = tr = 0
    jobs = [dict(module="CoreLoopMC", cfg=cfg, workers=workers, timeout=3000, heap="12g") for cfg, workers in cfgs]
    for (cfg, workers), r in zip(cfgs, vlib.tlc_parallel(jobs, maxpar=4)):
        if r.code != 0:
            if r.violated:
                ctx.violation("design model CoreLoopMC/%s violates %s:\n%s" % (cfg, r.violated_names(), r.out[-2500:]),
                              tags={"design": cfg})
            else:
                raise vlib.Broken("TLC failed on CoreLoopMC/%s (exit %d):\n%s" % (cfg, r.code, r.out[-3000:]))
        st += r.distinct
        tr += r.generated
    return st, tr


def base_matrix(seed, quick):
    """Configuration matrix shared by the stepping-loop checks (each adds its own emphasis)."""
    cs = []
    orders = ["none", "init_charge", "reindex_shuffle", "reindex_status", "reindex_particle_type",
              "reindex_along_step_action", "reindex_step_limit_action", "reindex_both_action"]
    n = 16 if quick else 64
    for i in range(n):
        s = seed + i
        cs.append(dict(seed=s, slots=[1, 2, 3, 4, 5, 8, 16, 64][i % 8], events=2 + i % 3, prims=1 + i % 4,
                       emax=[3, 30, 300, 2000][i % 4], dets=i % 9, fluct=i % 2,
                       scale=[1, 5, 20, 50][(i // 2) % 4], order=orders[i % len(orders)] if i % 3 else "none",
                       inflight=[0, 2, 5][i % 3], maxsteps=40000,
                       field=[0, 0, 1, 0, 0.01, 0, 5, 0][(i // 3) % 8],
                       killat=[0, 0, 0, 0, 3, 0, 0, 7][(i // 2) % 8],
                       msc=[0, 1, 0, 1, 1, 0][i % 6]))
    return cs


# ------------------------------------------------------------------ scripted replay (TLC -> real Stepper)
def _outs_list(o):
    if isinstance(o, dict):
        return [o[k] for k in sorted(o, key=lambda x: int(x))]
    return list(o)


def mc_script_to_vsim(hist, cfg, rnd):
    """Convert one CoreLoopMC behaviour (ghost `hist`) into a vsim script + the Impl predictions."""
    iters, tracks, pred = [], {}, []
    for rec in hist:
        k = rec["k"]
        if k == "gen":
            iters.append({"prims": [{"pt": p["pt"], "E": p["E"]} for p in rec["prims"]], "err": rec["err"]})
            if rec["err"]:
                break
        elif k == "phys":
            for o in _outs_list(rec["outs"]):
                dep = float(o["dep"])
                secs = [[int(s[0]), float(s[1])] for s in o["secs"]]
                # turn part of the local deposit into secondaries below the production cut (they must be
                # cut by InteractionApplier and deposited: 1/4 MeV, + 2mc^2 = 1 MeV for a positron)
                # (a track that dies with ONLY sub-cut secondaries leaves a stale, non-empty secondary span in
                # its vacated slot -- the history a seeded mutation of ProcessSecondaries needed -- so that
                # case is produced often)
                r = rnd.random()
                only_cut_death = (not o["alive"]) and not secs
                if dep >= 1 and (r < 0.35 or (only_cut_death and r < 0.75)):
                    cut = [rnd.choice([0, 1]), 0.25]
                    dep -= 0.25
                    secs.insert(rnd.randrange(len(secs) + 1), cut)
                    if dep >= 1 and rnd.random() < 0.3:
                        dep -= 0.25
                        secs.insert(rnd.randrange(len(secs) + 1), [rnd.choice([0, 1]), 0.25])
                elif dep >= 2 and r < 0.85:
                    dep -= 1.25
                    secs.insert(rnd.randrange(len(secs) + 1), [2, 0.25])
                tracks.setdefault(str(o["tid"]), []).append({"alive": bool(o["alive"]), "E1": float(o["E1"]),
                                                            "dep": dep, "secs": secs})
        elif k in ("start", "end"):
            pred.append(rec)
            if rec.get("err"):
                break
    return {"slots": cfg["NSlots"], "initcap": cfg["InitCap"], "order": "init_charge" if cfg["Charge"] else "none",
            "secfactor": 4.0, "iters": iters, "tracks": tracks}, pred


def compare_impl(trace_path, pred):
    """Impl-level comparison: slot->track-id maps after Start / End and the queue tail, as predicted by
    CoreLoopMC.  Returns a list of drift descriptions (informational: only Abs rejections are violations)."""
    drift = []
    slots = {}
    queue = []
    pi = 0
    with open(trace_path) as fh:
        for line in fh:
            r = json.loads(line)
            e = r.get("e")
            if e in ("Start", "End"):
                for c in r["changed"]:
                    slots[c["slot"]] = c.get("tid", -1) if c["st"] != "inactive" else -1
                rem = {(x["ev"], x["tid"]) for x in r["removed"]}
                queue = [t for t in queue if (0, t) not in rem] + [a["tid"] for a in r["added"]]
                while pi < len(pred) and pred[pi]["k"] != e.lower():
                    pi += 1
                if pi >= len(pred):
                    break
                p = pred[pi]
                pi += 1
                if p.get("err"):
                    continue
                exp = {i + 1: t for i, t in enumerate(p["tids"])}
                got = {i: slots.get(i, -1) for i in exp}
                if got != exp:
                    drift.append("%s: slot map %s, CoreLoopMC predicted %s" % (e, got, exp))
                if e == "End" and list(p.get("queue", [])) != queue:
                    drift.append("End: queue %s, CoreLoopMC predicted %s" % (queue, p.get("queue")))
            elif e == "Gen":
                queue = queue + [a["tid"] for a in r["added"]]
            elif e == "Reset":
                slots, queue = {}, []
    return drift


def replay(ctx, cfgs, nsim, prefixes, depth=60, per_cfg=150):
    """TLC-simulated behaviours of CoreLoopMC -> scripted physics on the real Stepper -> CoreLoopTrace."""
    import random
    vlib.build(["vsim"])
    rnd = random.Random(ctx.seed)
    scripts = []
    for cname, consts in cfgs:
        r = vlib.tlc("CoreLoopMC", "CoreLoopMC_" + cname, workers=4, simulate=max(1, nsim // 4), depth=depth,
                     seed=ctx.seed % 100000, timeout=900, heap="4g")
        if r.code != 0 and not r.violated:
            raise vlib.Broken("TLC simulate failed on %s: %s" % (cname, r.out[-2000:]))
        if r.violated:
            ctx.violation("design model CoreLoopMC/%s violates %s in simulation" % (cname, r.violated_names()), tags={"design": cname})
        seen = set()
        ok_scripts, err_scripts = [], []
        for m in re.finditer(r'<<"SCRIPT", "(.*)">>', r.out):
            txt = m.group(1).replace('\\"', '"')
            if txt in seen:
                continue
            seen.add(txt)
            hist = json.loads(txt)
            (err_scripts if any(rec.get("err") for rec in hist) else ok_scripts).append(hist)
        # longest behaviours first (more interleavings of deaths, vacancies and secondaries); capacity-error
        # behaviours are numerous and short: keep a fifth of the budget for them
        ok_scripts.sort(key=len, reverse=True)
        rnd.shuffle(err_scripts)
        keep = ok_scripts[:max(1, per_cfg * 4 // 5)] + err_scripts[:max(1, per_cfg // 5)]
        scripts += [(cname, consts, h) for h in keep]
    if not scripts:
        raise vlib.Broken("no replay scripts generated")
    outs, preds, paths = [], [], []
    for i, (cname, consts, hist) in enumerate(scripts):
        vs, pred = mc_script_to_vsim(hist, consts, rnd)
        sp = ctx.path("replay%04d.json" % i)
        json.dump(vs, open(sp, "w"))
        paths.append(sp)
        preds.append(pred)
    import concurrent.futures as cf

    def one(i):
        out = ctx.path("replay%04d.ndjson" % i)
        rr = vlib.run_harness("vsim", [out, "script=" + paths[i], "dets=%d" % (i % 4), "diag=1", "seed=%d" % (ctx.seed + i),
                                       "maxsteps=200"], timeout=120, check=False)
        if rr.returncode < 0 or rr.returncode == 124:
            with open(out, "w") as fh:
                fh.write(json.dumps({"e": "Config", "nslots": 1, "initcap": 1, "seccap": 99, "parts": [], "cbs": [],
                                     "stepbins": 0, "order": "none", "msc": False, "field": False}) + "\n")
                fh.write(json.dumps({"e": "Ranks", "zeroE": 0, "zeroT": 0, "zeroL": 0}) + "\n")
                fh.write(json.dumps({"e": "Abort", "what": "vsim script=%s died (exit %d)" % (paths[i], rr.returncode)}) + "\n")
        elif rr.returncode != 0 or not os.path.exists(out):
            raise vlib.Broken("vsim scripted failed: %s" % rr.stderr[-1500:])
        return out
    with cf.ThreadPoolExecutor(max_workers=8) as ex:
        outs = list(ex.map(one, range(len(scripts))))
    # Abs validation (concatenated shards)
    groups = vlib.shards(list(range(len(outs))), 8)
    jobs, files = [], []
    for gi, g in enumerate(groups):
        path = ctx.path("replayshard%02d.ndjson" % gi)
        with open(path, "w") as fh:
            for i in g:
                fh.write(open(outs[i]).read())
        files.append(path)
        jobs.append(dict(module="CoreLoopTrace", cfg="CoreLoopTrace", workers=1, env={"TRACE": path}, timeout=3000, heap="6g"))
    results = vlib.tlc_parallel(jobs, maxpar=8)
    tot = {"runs": 0, "steps": 0, "iters": 0, "tracks": 0, "errors": 0, "inplace": 0, "delivered": 0}
    offscript = []
    for gi, (g, r) in enumerate(zip(groups, results)):
        m = re.search(r'<<"SUMMARY", "(.*)">>', r.out)
        if r.code != 0 or not m:
            if "REJECTED" in r.out or r.violated:
                ctx.violation("scripted replay shard %d rejected by CoreLoopTrace:\n%s" % (gi, vlib.rejected_info(r)),
                              tags={"structural": "rejected"}, files=[files[gi]])
                continue
            raise vlib.Broken("TLC failed on replay shard %d: %s" % (gi, r.out[-2000:]))
        summ = json.loads(m.group(1).replace('\\"', '"'))
        for k in tot:
            tot[k] += summ["stat"].get(k, 0)
        for clause, line, run in summ["viol"]:
            ci = g[run - 1] if 0 < run <= len(g) else None
            if any(clause.startswith(p) for p in prefixes) or clause.startswith("DRIFT.OffScript"):
                is_drift = clause.startswith("DRIFT")
                desc = "scripted replay: clause %s at record %d (script %s)" % (clause, line, paths[ci] if ci is not None else "?")
                if is_drift:
                    offscript.append(desc)
                else:
                    ctx.violation(desc, tags={"clause": clause, "replay": True},
                                  files=[files[gi]] + ([paths[ci], outs[ci]] if ci is not None else []))
    drifts = []
    for i, out in enumerate(outs):
        d = compare_impl(out, preds[i])
        if d:
            drifts.append({"script": paths[i], "drift": d[:3]})
    tot["offscript"] = len(offscript)
    tot["offscript_samples"] = offscript[:3]
    tot["impl_drift_runs"] = len(drifts)
    tot["impl_drift_samples"] = drifts[:3]
    tot["scripts"] = len(scripts)
    return tot, [s[2] for s in scripts[:2]]
