#!/usr/bin/env python3
"""Regenerate MANIFEST.json from tools/manifest_data.py (single source of truth)."""
import json, os, sys
ROOT = os.path.dirname(os.path.dirname(os.path.abspath(__file__)))
sys.path.insert(0, os.path.join(ROOT, "tools"))
import manifest_data as md

props = [json.loads(l)["id"] for l in open(os.path.join(ROOT, "properties.jsonl"))]
checks = []
for pid in props:
    c = md.CHECKS.get(pid)
    if not c:
        continue
    checks.append({
        "property_id": pid,
        "quick_cmd": "bin/check %s --tier quick" % pid,
        "thorough_cmd": "bin/check %s --tier thorough" % pid,
        "evidence_file": "/verif/evidence/%s.json" % pid,
        "replay_cmd_template": "bin/check %s --replay {path}" % pid,
        "engine": c["engine"],
        "level_claimed": {"category": c["level"], "text": c["text"], "design_ref": c["design_ref"]},
        "level_note": c["note"],
        "technique": c["technique"],
    })
na = [{"property_id": p, "reason": md.NOT_APPLICABLE.get(p, "check not built yet in this session (planned, see DESIGN.md section 5)")}
      for p in props if p not in md.CHECKS]
man = {
    "version": 1,
    "setup_cmd": "bin/setup",
    "hooks": md.HOOKS,
    "engines": md.ENGINES,
    "checks": checks,
    "not_applicable": na,
    "notes": md.NOTES,
}
json.dump(man, open(os.path.join(ROOT, "MANIFEST.json"), "w"), indent=1)
print("wrote MANIFEST.json: %d checks, %d not_applicable" % (len(checks), len(na)))
