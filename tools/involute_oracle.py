#!/opt/veriftools/pyvenv/bin/python
"""C12 numeric oracle for the involute surface (ORACLE-DECIDED facts for spec/InvoluteTrace.tla).

  involute_oracle.py gen   <seed> <ncases> <cases.ndjson> [npts=<n>] [nrays=<n>]
  involute_oracle.py facts <cases.ndjson> <raw.ndjson> <trace.ndjson>

`gen` writes the input script for harness/vinvolute.cc (parameters, probe points, rays:
random, aimed at the curve, tangent / nearly tangent, radial, axis-parallel (z) and nearly so,
from inside the base circle, from both sides of the curve and from outside [tmin, tmax]).
`facts` reads what the REAL code answered and emits, per case, the facts TLC needs.

The reference is written from the mathematical definition in the class documentation of
src/orange/surf/Involute.hh, NOT from the C++ solver:

  counter-clockwise involute of the circle of radius rb about o, displacement angle a:
      C(t) = o + rb (cos(t+a) + t sin(t+a),  sin(t+a) - t cos(t+a)),     tmin <= t <= tmax
  a clockwise involute is its mirror image x - ox -> -(x - ox)  (start angle a <-> pi - a).

  In the (mirrored) frame a point P at distance rho >= rb from o lies on exactly one involute
  of the family per turn: C(t_P) has |C - o| = rb sqrt(1 + t^2) and polar angle t + a - atan t, so
      t_P = sqrt(rho^2/rb^2 - 1),      a_P = phi_P - t_P + atan t_P   (mod 2 pi).
  Involutes of one circle are PARALLEL curves with normal separation rb * (difference of a), so
      D(P) = rb * wrap(a_P - a)          (wrap to (-pi, pi])
  is the signed normal distance from P to the nearest turn of the (unbounded) curve, positive on
  the side of larger displacement angle.  Everything below is decided from D and t_P only:

  * crossing of a ray with the surface = sign change of D along the ray at a point with
    tmin <= t_P <= tmax (dense sampling, local-minimum refinement for nearly tangent chords,
    bisection);
  * "the point at distance s lies on the surface" = |D| <= TOL_S * rb there; the maximal
    intervals of the ray on which that holds are the ZONES; a reported distance must lie in a
    zone, a zone holding exactly one sign change, away from the ends of [tmin, tmax] and from
    the start point, must be reported exactly once;
  * sense (documentation of Involute::calc_sense): outside if t_P is not in [tmin, tmax];
    otherwise inside iff the involute through P has a displacement angle greater than a and a
    tangent angle below tmax + a:   0 < (a_P - a mod 2 pi) < tmax - t_P.  The oracle abstains
    (0) within MARGIN of any boundary of that region;
  * outward normal = - grad D / |grad D| (central differences).

Tolerances (trusted base, see `TOL` below): the solver documents a convergence tolerance of
1e-8 * rb on the line-to-curve offset and an on-surface suppression of 1e-6 * rb.
"""
import json
import math
import sys

import numpy as np

PI = math.pi
TWO_PI = 2 * math.pi

TOL = {
    "surf": 1e-7,      # * rb: |D| at a reported intersection (10 x the solver's documented 1e-8 * rb)
    "margin": 1e-6,    # * rb: the oracle abstains on the sense this close to a boundary of the region
    "t_edge": 1e-6,    # crossings with t_P this close to tmin / tmax are optional
    "wide": 1e-5,      # * rb: a zone wider than this is a shallow (ill-conditioned, sin < 0.02) contact: optional
    "on_lo": 0.5e-6,   # * rb (2-D distance): SurfaceState::on -- crossings nearer than this must be dropped
    "on_hi": 2e-6,     # * rb: ... farther than this must be reported (documented threshold 1e-6 * rb)
    "nlen": 1e-12,     # unit of the reported |n|^2 - 1
    "ncross": 1e-7,    # unit of the reported |n x n_oracle|
}
NSAMPLE = 3000


# ------------------------------------------------------------------------------ geometry
class Inv:
    def __init__(self, o, rb, a, sign, tmin, tmax):
        self.ox, self.oy = o
        self.rb = rb
        self.m = -1.0 if sign == "cw" else 1.0
        self.a = (PI - a) if sign == "cw" else a
        self.tmin, self.tmax = tmin, tmax

    # real frame <-> mirrored frame centred on o
    def local(self, x, y):
        return self.m * (x - self.ox), y - self.oy

    def world(self, X, Y):
        return self.ox + self.m * X, self.oy + Y

    def curve(self, t):
        th = t + self.a
        return (self.rb * (math.cos(th) + t * math.sin(th)), self.rb * (math.sin(th) - t * math.cos(th)))

    def tp_delta(self, X, Y):
        """(t_P, wrapped a_P - a) for arrays or scalars; t_P = nan inside the base circle."""
        X = np.asarray(X, dtype=float)
        Y = np.asarray(Y, dtype=float)
        q = (X * X + Y * Y) / (self.rb * self.rb) - 1.0
        with np.errstate(invalid="ignore"):
            tp = np.sqrt(q)
        aP = np.arctan2(Y, X) - tp + np.arctan(tp)
        dl = np.remainder(aP - self.a + PI, TWO_PI) - PI
        dl = np.where(dl <= -PI, dl + TWO_PI, dl)
        return tp, dl

    def tp_delta1(self, X, Y):
        """Scalar version of tp_delta (python floats)."""
        q = (X * X + Y * Y) / (self.rb * self.rb) - 1.0
        if not q >= 0:
            return math.nan, math.nan
        tp = math.sqrt(q)
        dl = (math.atan2(Y, X) - tp + math.atan(tp) - self.a + PI) % TWO_PI - PI
        if dl <= -PI:
            dl += TWO_PI
        return tp, dl

    def sense2(self, x, y):
        """(sense, negwin): sense -1 inside, +1 outside, 0 = within MARGIN of a boundary of the
        region (abstain).  negwin (scoping of the named deviation
        InvoluteSenseNegativeTangentAngle): the point is inside and the tangent angle
        t_P + a_P of the turn that makes it so is negative (only possible for a stored
        displacement angle < 0, i.e. a clockwise involute constructed with a > pi)."""
        X, Y = self.local(x, y)
        rb = self.rb
        mg = TOL["margin"] * rb
        rho = math.hypot(X, Y)
        r1 = rb * math.sqrt(1 + self.tmin ** 2)
        r2 = rb * math.sqrt(1 + self.tmax ** 2)
        if abs(rho - r1) <= mg or abs(rho - r2) <= mg or abs(rho - rb) <= mg:
            return 0, False
        if rho < rb or rho < r1 or rho > r2:
            return 1, False
        tp, dl = self.tp_delta1(X, Y)
        d0 = dl % TWO_PI
        cut = self.tmax - tp
        ang = mg / rb
        if d0 <= ang or TWO_PI - d0 <= ang:
            return 0, False
        if abs(d0 - cut) <= ang or abs(d0 - cut) * rho <= mg:
            return 0, False
        if d0 < cut:
            theta = self.a + d0 + tp
            if abs(theta) <= 1e-9:
                return 0, False
            return -1, theta < 0
        return 1, False

    def sense(self, x, y):
        return self.sense2(x, y)[0]

    def normal(self, x, y):
        """Outward unit normal by central differences of D (None inside the base circle)."""
        X, Y = self.local(x, y)
        rho = math.hypot(X, Y)
        if rho <= self.rb * (1 + 1e-4):
            return None
        h = 1e-6 * rho

        def dd(p, q):
            _, d1 = self.tp_delta1(*p)
            _, d2 = self.tp_delta1(*q)
            d = d1 - d2
            d = (d + PI) % TWO_PI - PI
            return d
        gx = dd((X + h, Y), (X - h, Y)) / (2 * h)
        gy = dd((X, Y + h), (X, Y - h)) / (2 * h)
        nrm = math.hypot(gx, gy)
        if not nrm > 0:
            return None
        # D grows towards the inside: outward = -grad; back to the real frame (mirror x)
        return (-self.m * gx / nrm, -gy / nrm)


class Ray2:
    """A ray in the mirrored frame, parametrised by the 2-D path length sigma."""

    def __init__(self, inv, p, d):
        self.inv = inv
        self.X0, self.Y0 = inv.local(p[0], p[1])
        U, V = inv.m * d[0], d[1]
        self.speed = math.hypot(U, V)
        if self.speed > 0:
            self.U, self.V = U / self.speed, V / self.speed
        else:
            self.U = self.V = 0.0

    def at(self, s):
        return self.X0 + s * self.U, self.Y0 + s * self.V

    def tpD(self, s):
        tp, dl = self.inv.tp_delta(*self.at(s))
        return tp, dl * self.inv.rb

    def D1(self, s):
        tp, dl = self.inv.tp_delta1(self.X0 + s * self.U, self.Y0 + s * self.V)
        return tp, dl * self.inv.rb

    def circle(self, r):
        """sigma values where the line meets the circle of radius r about o."""
        b = self.X0 * self.U + self.Y0 * self.V
        c = self.X0 ** 2 + self.Y0 ** 2 - r * r
        disc = b * b - c
        if disc <= 0:
            return []
        sq = math.sqrt(disc)
        return [-b - sq, -b + sq]


def find_zones(inv, ray, seeds):
    """Zones of one ray: list of dicts {lo, hi, nx, tlo, thi} in sigma (2-D path length).

    seeds: extra sigma values (the code's reported distances) that are examined as well: adding
    sample points does not make the oracle depend on the code."""
    rb = inv.rb
    tolS = TOL["surf"] * rb
    et = TOL["t_edge"]
    tlo_x, thi_x = max(inv.tmin - 10 * et, 0.0), inv.tmax + 10 * et
    if ray.speed == 0:
        return []
    rout = rb * math.sqrt(1 + thi_x ** 2)
    ends = ray.circle(rout * (1 + 1e-9))
    if not ends or ends[1] <= 0:
        return []
    s0, s1 = max(ends[0], 0.0), ends[1]
    grid = [np.linspace(s0, s1, NSAMPLE)]
    # geometric refinement near the start (on-surface starts) and the validity boundaries
    geo = s0 + (1e-13 * rb) * 2.0 ** np.arange(0, 60)
    grid.append(geo[geo < s1])
    for r in (rb, rb * math.sqrt(1 + tlo_x ** 2), rout):
        for sb in ray.circle(r):
            for k in (-1e-9, 1e-9, -1e-12, 1e-12):
                v = sb + k * max(rb, abs(sb))
                if s0 <= v <= s1:
                    grid.append(np.array([v]))
    sg = np.unique(np.concatenate(grid))
    tp, D = ray.tpD(sg)
    valid = np.isfinite(tp) & (tp >= tlo_x) & (tp <= thi_x)
    quarter = rb * PI / 2

    def valid1(s):
        t, _ = ray.D1(s)
        return t == t and tlo_x <= t <= thi_x

    def bisect(a, b):
        fa = ray.D1(a)[1]
        for _ in range(200):
            m = 0.5 * (a + b)
            if m == a or m == b:
                break
            fm = ray.D1(m)[1]
            if (fm > 0) == (fa > 0) and fm != 0:
                a, fa = m, fm
            else:
                b = m
        return 0.5 * (a + b)

    cross = []      # sigma of sign changes
    graze = []      # sigma of |D| minima within tolS without a sign change
    n = len(sg)
    for i in range(n - 1):
        if not (valid[i] and valid[i + 1]):
            continue
        if abs(D[i]) > quarter or abs(D[i + 1]) > quarter:
            continue
        if D[i] == 0.0:
            cross.append(float(sg[i]))
        elif D[i] * D[i + 1] < 0:
            cross.append(bisect(float(sg[i]), float(sg[i + 1])))
    if valid[n - 1] and D[n - 1] == 0.0:
        cross.append(float(sg[n - 1]))
    # local minima of |D| that might reach zero between samples
    aD = np.abs(D)
    for i in range(1, n - 1):
        if not (valid[i - 1] and valid[i] and valid[i + 1]):
            continue
        if aD[i] > quarter or not (aD[i] <= aD[i - 1] and aD[i] <= aD[i + 1]):
            continue
        if D[i - 1] * D[i] < 0 or D[i] * D[i + 1] < 0 or D[i] == 0:
            continue
        h = max(sg[i + 1] - sg[i], sg[i] - sg[i - 1])
        if aD[i] > 1.05 * h + tolS:
            continue            # |dD/dsigma| <= 1: cannot reach zero inside
        sgn = 1.0 if D[i] > 0 else -1.0
        a, b = float(sg[i - 1]), float(sg[i + 1])
        g = 0.3819660112501051
        x1, x2 = a + g * (b - a), b - g * (b - a)
        f1, f2 = sgn * ray.D1(x1)[1], sgn * ray.D1(x2)[1]
        for _ in range(120):
            if f1 < f2:
                b, x2, f2 = x2, x1, f1
                x1 = a + g * (b - a)
                f1 = sgn * ray.D1(x1)[1]
            else:
                a, x1, f1 = x1, x2, f2
                x2 = b - g * (b - a)
                f2 = sgn * ray.D1(x2)[1]
            if b - a <= 1e-15 * max(1.0, abs(b)):
                break
        xm, fm = (x1, f1) if f1 < f2 else (x2, f2)
        if fm < 0:
            cross.append(bisect(float(sg[i - 1]), xm))
            cross.append(bisect(xm, float(sg[i + 1])))
        elif fm <= tolS:
            graze.append(xm)

    def extent(c):
        """Maximal interval around c on which |D| <= tolS (and the point is valid)."""
        out = []
        for direction in (-1.0, 1.0):
            step = tolS
            inside = c
            outside = None
            for _ in range(80):
                s = inside + direction * step
                if direction < 0 and s <= 0:
                    s = 0.0
                if valid1(s) and abs(ray.D1(s)[1]) <= tolS:
                    inside = s
                    if s == 0.0:
                        break
                    step *= 2
                else:
                    outside = s
                    break
            if outside is not None:
                for _ in range(100):
                    m = 0.5 * (inside + outside)
                    if m == inside or m == outside:
                        break
                    if valid1(m) and abs(ray.D1(m)[1]) <= tolS:
                        inside = m
                    else:
                        outside = m
                out.append(outside)
            else:
                out.append(inside)
        return out[0], out[1]

    items = [(c, 1) for c in cross] + [(c, 0) for c in graze]
    for s in seeds:
        if s > 0 and s == s and s != math.inf and valid1(s) and abs(ray.D1(s)[1]) <= tolS:
            items.append((s, 0))
    ivs = []
    for c, isx in items:
        lo, hi = extent(c)
        ivs.append([min(lo, c), max(hi, c), [c] if isx else [], True])
    # the two END POINTS of the curve (t = tmin is a cusp on the base circle when tmin = 0): a ray
    # passing within tolS of one of them may or may not count as hitting the surface
    for te in (inv.tmin, inv.tmax):
        EX, EY = inv.curve(te)
        sE = (EX - ray.X0) * ray.U + (EY - ray.Y0) * ray.V
        hE = abs((EX - ray.X0) * ray.V - (EY - ray.Y0) * ray.U)
        if hE <= tolS and sE > -2 * tolS:
            ivs.append([max(sE - 2 * tolS, 0.0), sE + 2 * tolS, [], False])
    ivs.sort(key=lambda v: v[0])
    merged = []
    for iv in ivs:
        if merged and iv[0] <= merged[-1][1]:
            merged[-1][1] = max(merged[-1][1], iv[1])
            merged[-1][2] += iv[2]
            merged[-1][3] = merged[-1][3] and iv[3]
        else:
            merged.append(list(iv))
    zones = []
    for lo, hi, xs, free in merged:
        # distinct crossings (the same one may have been found twice)
        xs = sorted(xs)
        ux = []
        for x in xs:
            if not ux or x - ux[-1] > 1e-12 * max(1.0, abs(x)):
                ux.append(x)
        ts = [ray.D1(s)[0] for s in (lo, hi, 0.5 * (lo + hi)) + tuple(ux)]
        ts = [t for t in ts if t == t]
        tl, th = (min(ts), max(ts)) if ts else (math.nan, math.nan)
        if free and ts and (th < inv.tmin - et or tl > inv.tmax + et):
            continue            # entirely outside [tmin, tmax]: not part of the surface
        interior = free and bool(ts) and tl >= inv.tmin + et and th <= inv.tmax - et
        tx = ray.D1(ux[0])[0] if len(ux) == 1 else math.nan
        zones.append({"lo": float(lo), "hi": float(hi), "nx": len(ux), "interior": bool(interior), "tx": tx})
    return zones


def solver_brackets(inv, ray):
    """DEVIATION SCOPING ONLY (never used for a verdict on a reported value): the sequence of
    search brackets of detail::InvoluteSolver::operator() as documented there -- t_lower = 0,
    t_upper = the first non-negative value of beta - a + k pi with beta = atan(-v/u); after a
    bracket whose end values of the root function have different signs the next one is pi wide,
    otherwise pi/i wide with i = 1, 2, ... counting the failures -- together with, for each
    bracket, the number of roots of the line/curve offset g(t) = (C(t) - P) x e inside it.
    g'(t) = t (v cos(t+a) - u sin(t+a)) vanishes where the curve is parallel to the ray, so g
    is monotone between consecutive values of atan(v/u) - a + k pi and roots are counted exactly
    from the signs at those points.  A crossing whose bracket holds an EVEN number of roots is
    invisible to the solver's sign test (named deviation InvoluteSolverBracketParity)."""
    U, V = ray.U, ray.V
    a, rb = inv.a, inv.rb

    def g(t):
        th = t + a
        cx = rb * (math.cos(th) + t * math.sin(th)) - ray.X0
        cy = rb * (math.sin(th) - t * math.cos(th)) - ray.Y0
        return cx * V - cy * U

    def sgn(x):
        return (x > 0) - (x < 0)
    if U != 0:
        beta = math.atan(-V / U)
    elif -V < 0:
        beta = -0.5 * PI
    else:
        beta = 0.5 * PI
    t_lower = 0.0
    t_upper = beta - a
    t_upper += max(0.0, -math.floor(t_upper / PI)) * PI
    i = 1
    ext0 = math.atan2(V, U) - a          # extrema of g: ext0 + k pi
    out = []
    guard = 0
    unsure = False      # a bracket end had an offset within rounding of zero: the sequence from there
                        # on (pi or pi/i wide?) cannot be reproduced with certainty
    while t_lower < inv.tmax and guard < 10000:
        guard += 1
        fl, fu = g(t_lower), g(t_upper)
        found = sgn(fl) != sgn(fu)
        if abs(fl) <= 1e-9 * rb or abs(fu) <= 1e-9 * rb:
            unsure = True
        # count the roots inside by monotone pieces
        k0 = math.ceil((t_lower - ext0) / PI)
        cuts = [t_lower]
        k = k0
        while ext0 + k * PI < t_upper:
            if ext0 + k * PI > t_lower:
                cuts.append(ext0 + k * PI)
            k += 1
        cuts.append(t_upper)
        nroots = 0
        tiny = False
        for c0, c1 in zip(cuts[:-1], cuts[1:]):
            g0, g1 = g(c0), g(c1)
            if abs(g0) <= 1e-9 * rb or abs(g1) <= 1e-9 * rb:
                tiny = True
            if sgn(g0) * sgn(g1) < 0:
                nroots += 1
        out.append({"lo": t_lower, "hi": t_upper, "found": found, "n": nroots, "tiny": tiny or unsure})
        if found:
            t_lower = t_upper
            t_upper += PI
        else:
            t_lower = t_upper
            t_upper += PI / i
            i += 1
    return out


def ray_facts(inv, p, d, dist, st):
    """Facts for one calc_intersections call: dist = the code's answer (list of floats/strings)."""
    ray = Ray2(inv, p, d)
    rb = inv.rb
    reps = []
    seeds = []
    for t in dist:
        if t == "inf":
            continue
        if isinstance(t, str):           # nan / -inf
            reps.append({"pos": False, "sig": None})
            continue
        sig = t * ray.speed
        reps.append({"pos": t > 0, "sig": sig if t > 0 else None})
        if t > 0:
            seeds.append(sig)
    zones = find_zones(inv, ray, seeds)
    on_lo, on_hi = TOL["on_lo"] * rb, TOL["on_hi"] * rb
    vals = set()
    zout = []
    brackets = None
    for z in zones:
        lo = z["lo"] * (1 - 1e-12)
        hi = z["hi"] * (1 + 1e-12)
        if st == 1:
            near = z["lo"] <= on_hi
            forbid = z["hi"] < on_lo
        else:
            near = z["lo"] <= 0.0
            forbid = False
        must = bool(z["nx"] == 1 and z["interior"] and not near and z["hi"] - z["lo"] <= TOL["wide"] * rb)
        # br: 0 = the solver's bracket around this crossing holds exactly this root (its sign test
        # sees it), 1 = it holds an even number of roots (named deviation), 2 = undecidable
        br = 2
        if must and z["tx"] == z["tx"]:
            if brackets is None:
                brackets = solver_brackets(inv, ray)
            bs = [b for b in brackets if b["lo"] <= z["tx"] <= b["hi"]]
            if len(bs) == 1 and not bs[0]["tiny"]:
                b = bs[0]
                if b["found"] and b["n"] == 1:
                    br = 0
                elif not b["found"] and b["n"] % 2 == 0:
                    br = 1
        zout.append({"lo": lo, "hi": hi, "nx": z["nx"], "must": must, "forbid": bool(forbid), "br": br})
        vals.add(lo)
        vals.add(hi)
    for r in reps:
        if r["sig"] is not None:
            vals.add(r["sig"])
    order = sorted(vals)
    rank = {v: i + 1 for i, v in enumerate(order)}
    out = {"st": st, "par": ray.speed == 0,
           "rep": [{"pos": r["pos"], "k": rank[r["sig"]] if r["sig"] is not None else 0} for r in reps],
           "zones": [{"lo": rank[z["lo"]], "hi": rank[z["hi"]], "nx": z["nx"], "must": z["must"],
                      "forbid": z["forbid"], "br": z["br"]} for z in zout]}
    return out, zout, reps


def normal_facts(inv, p, n, direction=True):
    """Residuals of the code's normal n at p against the numerical gradient (integers for TLC).
    direction=False (points that are not on the surface, where calc_normal is not specified):
    only finiteness, unit length and n_z = 0."""
    ref = inv.normal(p[0], p[1]) if direction else None
    bad = any(isinstance(c, str) for c in n)
    if bad:
        return {"ck": ref is not None, "fin": False, "nl": 0, "nc": 0, "nd": 0, "nz": False}
    nl = (n[0] * n[0] + n[1] * n[1] + n[2] * n[2] - 1.0) / TOL["nlen"]
    nl = int(max(-1e6, min(1e6, round(nl))))
    if ref is None:
        return {"ck": False, "fin": True, "nl": nl, "nc": 0, "nd": 0, "nz": n[2] == 0}
    cr = abs(n[0] * ref[1] - n[1] * ref[0]) / TOL["ncross"]
    dot = n[0] * ref[0] + n[1] * ref[1]
    return {"ck": True, "fin": True, "nl": nl, "nc": int(min(1e6, round(cr))),
            "nd": (dot > 0) - (dot < 0), "nz": n[2] == 0}


def case_facts(raw, case):
    inv = Inv(case["o"], case["rb"], case["a"], case["sign"], case["tmin"], case["tmax"])
    out = {"e": "Inv", "id": raw["id"], "cw": case["sign"] == "cw", "sgn": raw.get("sign_back") == case["sign"]}
    pts = []
    for pt in raw["pts"]:
        p = pt["p"]
        f = normal_facts(inv, p, pt["n"], direction=False)
        os_, nw = inv.sense2(p[0], p[1])
        f.update({"sn": pt["sn"], "os": os_, "nw": nw})
        pts.append(f)
    out["pts"] = pts
    rays = []
    stats = {"zones": 0, "must": 0, "forbid": 0, "hits": 0, "multi": 0, "graze": 0, "even_bracket": 0,
             "undecidable_bracket": 0}

    def account(zs):
        stats["zones"] += len(zs)
        stats["must"] += sum(1 for z in zs if z["must"])
        stats["forbid"] += sum(1 for z in zs if z["forbid"])
        stats["multi"] += sum(1 for z in zs if z["nx"] > 1)
        stats["graze"] += sum(1 for z in zs if z["nx"] == 0)
        stats["even_bracket"] += sum(1 for z in zs if z["must"] and z["br"] == 1)
        stats["undecidable_bracket"] += sum(1 for z in zs if z["must"] and z["br"] == 2)
    for r in raw["rays"]:
        rf, zout, reps = ray_facts(inv, r["p"], r["d"], r["dist"], 0)
        account(zout)
        probes = []
        speed = Ray2(inv, r["p"], r["d"]).speed
        for h in r["hits"]:
            osb, nwb = inv.sense2(h["pb"][0], h["pb"][1])
            osa, nwa = inv.sense2(h["pa"][0], h["pa"][1])
            sig = h["t"] * speed if not isinstance(h["t"], str) else None
            must = False
            if sig is not None:
                for z in zout:
                    if z["lo"] <= sig <= z["hi"]:
                        must = z["must"]
            pf = {"sb": h["sb"], "osb": osb, "nwb": nwb, "sa": h["sa"], "osa": osa, "nwa": nwa,
                  "flip": bool(must and osb * osa == -1 and not nwb and not nwa)}
            pf["nrm"] = normal_facts(inv, h["q"], h["n"])
            probes.append(pf)
            stats["hits"] += 1
        rf["probes"] = probes
        rays.append(rf)
        # the follow-up queries from the intersection point with SurfaceState::on
        for h in r["hits"]:
            f2, z2, _ = ray_facts(inv, h["q"], r["d"], h["on"], 1)
            account(z2)
            f2["probes"] = []
            rays.append(f2)
            for o2 in h["on2"]:
                f3, z3, _ = ray_facts(inv, h["q"], o2["d"], o2["dist"], 1)
                account(z3)
                f3["probes"] = []
                rays.append(f3)
    out["rays"] = rays
    trs = []
    for tr in raw["tr"]:
        e = {"inv": bool(tr.get("inv")), "sgn": tr.get("sign_back") == case["sign"], "swp": False, "pts": []}
        if tr.get("inv"):
            # scoping of the named deviation InvoluteTranslatorClockwiseAngle: the translated
            # surface stores pi - (stored angle of the original) instead of the same angle
            a0, a1 = raw["data"][3], tr["data"][3]
            e["swp"] = bool(abs(a1 - (PI - a0)) <= 1e-12 and abs(a1 - a0) > 1e-9)
            alt = Inv(case["o"], case["rb"], PI - case["a"], case["sign"], case["tmin"], case["tmax"])
            for pt, sn in zip(raw["pts"], tr["sn"]):
                os_, nw = inv.sense2(pt["p"][0], pt["p"][1])
                e["pts"].append({"sn": sn, "os": os_, "nw": nw, "os2": alt.sense(pt["p"][0], pt["p"][1])})
        trs.append(e)
    out["tr"] = trs
    return out, stats


# ------------------------------------------------------------------------------ generation
def unit3(v):
    n = math.sqrt(sum(c * c for c in v))
    return [c / n for c in v]


def gen_case(rng, cid, npts, nrays):
    u = rng.random
    kind = cid % 8
    rb = [0.5, 1.0, 2.0, 1.1][cid % 4] if kind < 4 else math.exp(rng.uniform(math.log(0.3), math.log(5.0)))
    sign = "cw" if (cid // 2) % 2 else "ccw"
    a = [0.0, 0.5 * PI, PI, 1.5 * PI][cid % 4] if kind in (0, 5) else rng.uniform(0, TWO_PI)
    tmin = 0.0 if kind in (0, 1, 6) else rng.choice([rng.uniform(0, 2), rng.uniform(0, 8), 1.732050808, 2.0])
    span = rng.choice([rng.uniform(0.3, 2.0), rng.uniform(2.0, 6.0), 1.99 * PI, rng.uniform(0.05, 0.3)])
    tmax = tmin + span
    o = [0.0, 0.0] if kind in (0, 2) else [round(rng.uniform(-3, 3), 2), round(rng.uniform(-3, 3), 2)]
    inv = Inv(o, rb, a, sign, tmin, tmax)
    rmax = rb * math.sqrt(1 + tmax * tmax)
    rmin = rb * math.sqrt(1 + tmin * tmin)

    def z():
        return rng.choice([0.0, rng.uniform(-2, 2)])

    def tin():
        return rng.uniform(tmin, tmax)

    def near_curve(t, h):
        X, Y = inv.curve(t)
        th = t + inv.a
        X, Y = X + h * math.sin(th), Y - h * math.cos(th)     # h > 0: outward
        x, y = inv.world(X, Y)
        return [x, y, z()]

    def polar(r, psi):
        x, y = inv.world(r * math.cos(psi), r * math.sin(psi))
        return [x, y, z()]

    def anywhere():
        c = rng.randrange(6)
        if c == 0:
            return polar(rb * rng.uniform(0, 0.999), rng.uniform(0, TWO_PI))          # inside the base circle
        if c == 1:
            return polar(rng.uniform(rb, max(rmin, rb * 1.0001)), rng.uniform(0, TWO_PI))   # t < tmin
        if c == 2:
            return polar(rmax * rng.uniform(1.001, 1.6), rng.uniform(0, TWO_PI))      # t > tmax
        if c == 3:
            return near_curve(tin(), rb * rng.choice([1e-3, -1e-3, 0.05, -0.05, 0.4, -0.4, 1e-5, -1e-5]))
        return polar(rng.uniform(rmin, rmax), rng.uniform(0, TWO_PI))                 # in the annulus

    pts = [anywhere() for _ in range(npts)]
    if tmin == 0.0:
        x, y = inv.world(*inv.curve(0.0))
        pts.append([x, y, 0.0])             # the start of the curve on the base circle
    pts.append(polar(0.0, 0.0))             # the centre

    def wdir(U, V, w=None):
        """3-D unit direction with the given 2-D heading in the mirrored frame."""
        if w is None:
            w = rng.choice([0.0, 0.0, rng.uniform(-1.5, 1.5)])
        return unit3([inv.m * U, V, w])

    rays = []

    def add(p, d):
        d2 = [unit3([rng.gauss(0, 1), rng.gauss(0, 1), rng.choice([0.0, rng.gauss(0, 1)])]),
              [-d[0], -d[1], -d[2]]]
        rays.append({"p": p, "d": d, "eps": 1e-5 * rb, "d2": d2})

    for i in range(nrays):
        c = i % 12
        if c in (0, 1):                     # random
            add(anywhere(), unit3([rng.gauss(0, 1), rng.gauss(0, 1), rng.choice([0.0, rng.gauss(0, 1)])]))
        elif c in (2, 3):                   # aimed at a point of the curve (c == 3: near / at / beyond its ends)
            t = tin() if c == 2 else rng.choice([tmin, tmax, tmin - 0.01, tmax + 0.01, tmin + 1e-3, tmax - 1e-3])
            t = max(t, 0.0)
            X, Y = inv.curve(t)
            p = anywhere()
            PX, PY = inv.local(p[0], p[1])
            L = math.hypot(X - PX, Y - PY)
            if L > 0:
                add(p, wdir((X - PX) / L, (Y - PY) / L))
        elif c in (4, 5, 6):                # tangent / nearly tangent to the curve at C(t)
            t = max(tin(), 0.05)
            th = t + inv.a
            sag = rb * rng.choice([0.0, 0.0, 1e-3, -1e-3, 1e-5, -1e-5, 1e-7, -1e-7, 3e-9, -3e-9, 0.05, -0.05])
            L = rng.uniform(0.2, 3.0) * rb * (1 if c != 6 else -0.0)
            X, Y = inv.curve(t)
            X, Y = X - L * math.cos(th) + sag * math.sin(th), Y - L * math.sin(th) - sag * math.cos(th)
            x, y = inv.world(X, Y)
            sgn = rng.choice([1.0, -1.0]) if c == 6 else 1.0
            add([x, y, z()], wdir(sgn * math.cos(th), sgn * math.sin(th)))
        elif c == 7:                        # radial, outward from near the centre or inward from outside
            psi = rng.uniform(0, TWO_PI)
            if rng.random() < 0.5:
                add(polar(rb * rng.choice([0.0, 0.3, 0.9]), psi), wdir(math.cos(psi), math.sin(psi)))
            else:
                add(polar(rmax * 1.3, psi), wdir(-math.cos(psi), -math.sin(psi)))
        elif c == 8:                        # axis-parallel (z) and nearly so
            w = rng.choice([1.0, -1.0])
            k = rng.choice([0.0, 0.0, 1e-3, 1e-6])
            psi = rng.uniform(0, TWO_PI)
            add(anywhere(), unit3([k * math.cos(psi), k * math.sin(psi), w]))
        elif c == 9:                        # along x or y exactly (u = 0 or v = 0 in the solver)
            add(anywhere(), rng.choice([[1.0, 0.0, 0.0], [-1.0, 0.0, 0.0], [0.0, 1.0, 0.0], [0.0, -1.0, 0.0],
                                        [0.0, 0.6, 0.8], [0.6, 0.0, -0.8]]))
        elif c == 10:                       # from inside the base circle
            add(polar(rb * rng.uniform(0, 0.99), rng.uniform(0, TWO_PI)),
                unit3([rng.gauss(0, 1), rng.gauss(0, 1), rng.choice([0.0, rng.gauss(0, 1)])]))
        else:                               # from far outside, through the annulus
            psi = rng.uniform(0, TWO_PI)
            p = polar(rmax * rng.uniform(1.1, 2.0), psi)
            tgt = polar(rng.uniform(0, rmax), rng.uniform(0, TWO_PI))
            PX, PY = inv.local(p[0], p[1])
            TX, TY = inv.local(tgt[0], tgt[1])
            L = math.hypot(TX - PX, TY - PY)
            add(p, wdir((TX - PX) / L, (TY - PY) / L))
    tr = [[round(rng.uniform(-4, 4), 2), round(rng.uniform(-4, 4), 2), round(rng.uniform(-4, 4), 2)],
          [0.0, 0.0, rng.uniform(-1, 1)], [rng.uniform(-1, 1), rng.uniform(-1, 1), 0.0]]
    return {"id": cid, "o": o, "rb": rb, "a": a, "sign": sign, "tmin": tmin, "tmax": tmax,
            "pts": pts, "rays": rays, "tr": tr}


def main(argv):
    if len(argv) >= 5 and argv[1] == "gen":
        import random
        seed, n, out = int(argv[2]), int(argv[3]), argv[4]
        kn = {"npts": 20, "nrays": 24}
        for a in argv[5:]:
            k, v = a.split("=")
            kn[k] = int(v)
        rng = random.Random(seed)
        with open(out, "w") as fh:
            for cid in range(n):
                fh.write(json.dumps(gen_case(rng, cid, kn["npts"], kn["nrays"]), separators=(",", ":")) + "\n")
        return 0
    if len(argv) == 5 and argv[1] == "facts":
        cases = {}
        with open(argv[2]) as fh:
            for line in fh:
                if line.strip():
                    c = json.loads(line)
                    cases[c["id"]] = c
        tot = {}
        n = 0
        with open(argv[3]) as fh, open(argv[4], "w") as out:
            for line in fh:
                if not line.strip():
                    continue
                raw = json.loads(line)
                if raw["e"] != "Inv":
                    out.write(json.dumps(raw, separators=(",", ":")) + "\n")
                    continue
                rec, st = case_facts(raw, cases[raw["id"]])
                for k, v in st.items():
                    tot[k] = tot.get(k, 0) + v
                n += 1
                out.write(json.dumps(rec, separators=(",", ":")) + "\n")
        tot["cases"] = n
        tot["tolerances"] = TOL
        print(json.dumps(tot))
        return 0
    sys.stderr.write(__doc__)
    return 2


if __name__ == "__main__":
    sys.exit(main(sys.argv))
