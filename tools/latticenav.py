"""Shared runner for the navigation properties C03 (navigation = true point location) and
C11 (safety distance conservative).  One specification (spec/LatticeNav.tla), one harness
(harness/vnav.cc), two check modules.

design():    TLC model-checks the design model spec/LatticeNavMC (implementation-shaped
             multi-level algorithm vs the abstract navigator, all protocol interleavings) on
             small lattice worlds -- `fixed` must pass, `ascoded` (set_dir's level loop exactly
             as written in OrangeTrackView) must be REFUTED: it is the vacuity guard.
replay():    for every lattice world (hand-written library + seeded random ones) vnav builds the
             real geometry through orangeinp and (a) executes every legal operation of every
             reachable protocol state (exhaustive over the protocol-state graph), (b) seeded random
             protocol walks; TLC validates each trace against spec/LatticeNavTrace with the
             world JSON as the oracle.
fixtures():  bundled .org.json geometries: straight rays, random protocol walks and safety
             probes; tools/oracle_geo.py (independent numeric point location, validity gate)
             supplies environment facts, TLC validates against spec/RayNavTrace.
"""
import concurrent.futures as cf
import glob
import json
import os
import re
import subprocess
import sys

import vlib
import worlds as W

VT_PY = "/opt/veriftools/pyvenv/bin/python"
ENV = {"CELER_LOG": "critical", "CELER_LOG_LOCAL": "critical"}
# many short TLC runs in parallel: keep each JVM's helper threads few
JVM = {"JAVA_TOOL_OPTIONS": "-XX:ParallelGCThreads=2 -XX:CICompilerCount=2"}
MC_WORLDS = ["mc_rzp", "mc_imp", "nested3"]
F_NAV_1 = "rotated-daughter-setdir-on-shallower-surface"
OPS = ("Find", "FindMax", "MoveI", "MoveB", "Cross", "SetDir", "Safety", "MoveTo", "SafetyMax", "Copy")


# Debugging knobs (mutation screening): VERIF_NAV_WORLDS=a,b restricts the replayed lattice worlds,
# VERIF_NAV_SKIP=design,fixtures,lattice skips parts.  Evidence records what was skipped.
def knob_worlds(files):
    only = [x for x in os.environ.get("VERIF_NAV_WORLDS", "").split(",") if x]
    if not only:
        return files
    return [f for f in files if os.path.splitext(os.path.basename(f))[0] in only]


def skip(part):
    return part in os.environ.get("VERIF_NAV_SKIP", "").split(",")


# ------------------------------------------------------------------------------ worlds
QUICK_SKIP = ("refl_cyc_big", "array221_rot")     # large library worlds replayed in the thorough tier only


def make_worlds(ctx, nrandom, big=False):
    d = ctx.path("worlds")
    os.makedirs(d, exist_ok=True)
    files = []
    for w in W.library():
        if ctx.quick and w["name"] in QUICK_SKIP:
            continue
        files.append(W.write_world(w, d))
    for i in range(nrandom):
        files.append(W.write_world(W.random_world(ctx.seed + i, big=big and i % 4 == 0), d))
    return files


# ------------------------------------------------------------------------------ design
def design(ctx, worlds_by_name, with_guard=True):
    """Returns (states, transitions, per-world list).  Reports violations of the fixed model."""
    if skip("design"):
        return 0, 0, [{"skipped": "VERIF_NAV_SKIP"}], None
    jobs = []
    for name in MC_WORLDS:
        jobs.append(dict(module="LatticeNavMC", cfg="LatticeNavMC_fixed", workers=4,
                         env=dict(JVM, WORLD=worlds_by_name[name]), timeout=1500, heap="6g"))
    if with_guard:
        jobs.append(dict(module="LatticeNavMC", cfg="LatticeNavMC_ascoded", workers=2,
                         env=dict(JVM, WORLD=worlds_by_name["mc_rzp"]), timeout=1500, heap="6g"))
    res = vlib.tlc_parallel(jobs, maxpar=4)
    st = tr = 0
    info = []
    for name, r in zip(MC_WORLDS, res):
        if r.code != 0:
            if r.violated:
                m = re.search(r'cl = (\{[^}]*\})', r.out[r.out.rfind("State "):] if "State " in r.out else r.out)
                ctx.violation("design model LatticeNavMC (set_dir loop bounded by surface_level) violates %s on world %s: %s"
                              % (r.violated_names(), name, m.group(1) if m else ""),
                              tags={"design": name})
            else:
                raise vlib.Broken("TLC failed on LatticeNavMC_fixed/%s (exit %d):\n%s" % (name, r.code, r.out[-3000:]))
        st += r.distinct
        tr += r.generated
        info.append({"world": name, "states": r.distinct, "transitions": r.generated, "depth": r.depth})
    guard = None
    if with_guard:
        g = res[-1]
        if g.code == 0:
            raise vlib.Broken("vacuity guard failed: LatticeNavMC with set_dir's level loop AS CODED satisfies "
                              "NoViolation on mc_rzp -- the design model lost its teeth")
        if not g.violated or "NoViolation" not in g.out:
            raise vlib.Broken("TLC failed on LatticeNavMC_ascoded (exit %d):\n%s" % (g.code, g.out[-3000:]))
        m = re.findall(r'cl = (\{[^}]*\})', g.out)
        guard = {"world": "mc_rzp", "refuted": True, "clauses": m[-1] if m else "?", "states": g.distinct}
    return st, tr, info, guard


# ------------------------------------------------------------------------------ replay
def _run_vnav(args, timeout):
    return vlib.run_harness("vnav", args, timeout=timeout, env=ENV, check=False)


def history(recs, lno):
    """Operation sequence (list of records) leading to 1-based record number lno: a record applied
    to stack level k follows the most recent earlier record stored at level k (field j)."""
    tgt = recs[lno - 1]
    out = [tgt]
    if tgt.get("e") == "Init":
        return out
    need = tgt.get("k", 0)
    i = lno - 2
    while need >= 1 and i >= 0:
        r = recs[i]
        if r.get("j") == need and r.get("e") not in ("World", "Stats", "Close"):
            out.append(r)
            if r["e"] == "Init":
                break
            need = r["k"]
        i -= 1
    return out[::-1]


def brief(r):
    e = r["e"]
    arg = ""
    if e == "Init":
        arg = "(pos=%s, dir=%s)" % (r["pos"], r["dir"])
    elif e in ("FindMax", "SafetyMax"):
        arg = "(%d)" % r["m"]
    elif e == "MoveI":
        arg = "(%d)" % r["x"]
    elif e in ("SetDir", "Copy"):
        arg = "(%s)" % r["dir"]
    elif e == "MoveTo":
        arg = "(%s)" % r["p"]
    res = ""
    if e in ("Find", "FindMax"):
        res = " -> d=%s b=%s" % (r["d"] if r.get("dok") else "non-lattice", r["b"])
    if e in ("Safety", "SafetyMax"):
        res = " -> s^2 in [%s,%s]" % (r["s2f"], r["s2c"])
    return "%s%s%s  [vol=%s onb=%s out=%s pos=%s lev=%s slev=%s %s]" % (
        e, arg, res, r.get("vol"), r.get("onb"), r.get("out"), r.get("rpos"), r.get("lev"), r.get("slev"), r.get("bres"))


def classify(hist):
    """Feature tag of a failing history: F-NAV-1's signature is a set_dir issued on a boundary
    whose surface belongs to a shallower level than the track's deepest level (slev < lev)
    since the last move, in a history whose failing record follows it."""
    seen = False
    for r in hist:
        if r["e"] in ("MoveB", "Init", "MoveI", "MoveTo"):
            seen = False
        if r["e"] == "SetDir" and r.get("onb") and r.get("slev", -1) >= 0 and r.get("lev", 0) > r["slev"]:
            seen = True
    return F_NAV_1 if seen else ""


def replay(ctx, files, mode, prefixes, explore_bound=0, maxcalls=400000, nwalks=40, walklen=60, maxpar=8):
    """mode: 'explore', 'walk' or 'both'.  Returns totals dict.  Reports clause violations whose
    name starts with one of `prefixes` through ctx.violation."""
    vlib.build(["vnav"])
    jobs = []
    files = [] if skip("lattice") else knob_worlds(files)
    for wf in files:
        name = os.path.splitext(os.path.basename(wf))[0]
        if mode == "both":
            jobs.append((wf, name, "explore+walk", ["both", wf, explore_bound, maxcalls, ctx.seed, nwalks, walklen,
                                                     ctx.path(name + ".ndjson")]))
        elif mode == "explore":
            jobs.append((wf, name, "explore", ["explore", wf, explore_bound, maxcalls, ctx.path(name + ".x.ndjson")]))
        else:
            jobs.append((wf, name, "walk", ["walk", wf, ctx.seed, nwalks, walklen, ctx.path(name + ".w.ndjson")]))

    def run(job):
        wf, name, kind, args = job
        r = _run_vnav(args, 900)
        return r.returncode, (r.stderr or "")[-800:]
    with cf.ThreadPoolExecutor(max_workers=maxpar) as ex:
        rcs = list(ex.map(run, jobs))
    tj = []
    for (wf, name, kind, args), (rc, err) in zip(jobs, rcs):
        if rc != 0:
            if rc == 124:
                ctx.violation("vnav %s on world %s timed out (navigator does not terminate?)" % (kind, name),
                              tags={"clause": "C03.ExitsWorld", "world": name}, files=[wf])
                tj.append(None)
                continue
            if rc < 0 or rc in (134, 139) or (rc == 5 and _has_abort(args[-1])):
                # the code under test crashed (signal) or threw while navigating (Abort record): the
                # harness only issues protocol-legal calls, so this is the navigator's failure
                ctx.violation("OrangeTrackView crashed / threw during %s on lattice world '%s' (vnav exit %d); last "
                              "operations:\n  %s\n%s" % (kind, name, rc,
                                                         "\n  ".join(brief(x) for x in _tail_records(args[-1], 6)), err),
                              tags={"clause": "C03.Abort", "world": name}, files=[wf, args[-1]])
                tj.append(None)
                continue
            raise vlib.Broken("vnav %s on %s failed (exit %d): %s" % (kind, name, rc, err))
        tj.append(dict(module="LatticeNavTrace", cfg="LatticeNavTrace", workers=1,
                       env=dict(JVM, WORLD=wf, TRACE=args[-1]), timeout=3000, heap="3g"))
    res = vlib.tlc_parallel([j for j in tj if j], maxpar=maxpar)
    it = iter(res)
    tot = {"traces": 0, "calls": 0, "judged": 0, "unjudged": 0, "inits": 0, "safety": 0, "safety_pos": 0,
           "states": 0, "exhaustive_worlds": 0, "truncated_worlds": 0, "per_op": {}, "soft": {}, "other_clauses": set()}
    samples = []
    for (wf, name, kind, args), j in zip(jobs, tj):
        if j is None:
            continue
        r = next(it)
        trace = args[-1]
        m = re.search(r'<<"SUMMARY", "(.*)">>', r.out)
        if r.code != 0 or not m:
            if "REJECTED" in r.out or r.violated:
                info = vlib.rejected_info(r)
                if '"Abort"' in info or "Abort" in info:
                    ctx.violation("navigator aborted on world %s (%s):\n%s" % (name, kind, info),
                                  tags={"clause": "C03.Abort", "world": name}, files=[wf, trace])
                    continue
                if not _closed(trace):
                    ctx.violation("vnav crashed on world %s (%s): trace without Close\n%s" % (name, kind, info),
                                  tags={"clause": "C03.Abort", "world": name}, files=[wf, trace])
                    continue
                raise vlib.Broken("trace of world %s (%s) rejected for a protocol-order reason (harness fault):\n%s"
                                  % (name, kind, info))
            raise vlib.Broken("TLC failed on trace of %s (exit %d):\n%s" % (name, r.code, r.out[-3000:]))
        summ = json.loads(m.group(1).replace('\\"', '"'))
        st = summ["stat"]
        tot["traces"] += 1
        tot["inits"] += st["Init"]
        tot["judged"] += st["judged"]
        tot["unjudged"] += st["unjudged"]
        tot["safety"] += st["Safety"]
        tot["safety_pos"] += st["safety_pos"]
        ncalls = sum(st[k] for k in OPS)
        tot["calls"] += ncalls
        for k in OPS:
            tot["per_op"][k] = tot["per_op"].get(k, 0) + st[k]
        recs = None
        if kind.startswith("explore"):
            stats = _last_stats(trace)
            if stats:
                tot["states"] += stats["states"]
                if stats["truncated"] or stats["bound"] > 0:
                    tot["truncated_worlds"] += 1
                else:
                    tot["exhaustive_worlds"] += 1
        viol = summ["viol"] if isinstance(summ["viol"], dict) else {}
        for clause, v in sorted(viol.items()):
            if recs is None:
                recs = vlib.read_ndjson(trace)
            hist = history(recs, v["minl"])
            feat = classify(hist)
            text = ("clause %s violated on lattice world '%s' (%s; %d hits, shortest history below, record %d of %s)\n"
                    "expected by spec/LatticeNav.tla from the world definition; reported by OrangeTrackView:\n  %s"
                    % (clause, name, kind, v["n"], v["minl"], os.path.basename(trace),
                       "\n  ".join(brief(h) for h in hist)))
            script = ctx.path("%s.%s.%s.script.json" % (name, kind, clause.replace(".", "_")))
            with open(script, "w") as fh:
                json.dump([_op_only(h) for h in hist], fh)
            if clause in ("C03.LimitInclusive",):
                tot["soft"][clause] = tot["soft"].get(clause, 0) + v["n"]
                if any(clause.startswith(p) for p in prefixes):
                    ctx.violation(text, tags={"clause": clause, "deviation": "LimitedSearchDropsDeeperBoundaryAtExactLimit",
                                              "world": name}, files=[wf, script])
                continue
            if any(clause.startswith(p) for p in prefixes):
                tags = {"clause": clause, "world": name}
                if feat:
                    tags["feature"] = feat
                ctx.violation(text, tags=tags, files=[wf, script])
            else:
                tot["other_clauses"].add(clause)
        if len(samples) < 3:
            samples.append({"world": name, "ops": [brief(x) for x in _tail_records(trace, 9)]})
    tot["other_clauses"] = sorted(tot["other_clauses"])
    return tot, samples


def _op_only(r):
    keep = {"e": r["e"]}
    for k in ("pos", "dir", "m", "x", "p"):
        if k in r:
            keep[k] = r[k]
    return keep


def _has_abort(trace):
    try:
        with open(trace, "rb") as fh:
            fh.seek(max(0, os.path.getsize(trace) - 400))
            return b'"Abort"' in fh.read()
    except OSError:
        return False


def _closed(trace):
    try:
        with open(trace, "rb") as fh:
            fh.seek(max(0, os.path.getsize(trace) - 200))
            return b'"Close"' in fh.read()
    except OSError:
        return False


def _last_stats(trace):
    try:
        with open(trace) as fh:
            for line in fh:
                if line.startswith('{"bound"') or '"e":"Stats"' in line:
                    return json.loads(line)
    except (OSError, ValueError):
        pass
    return None


def _tail_records(trace, n):
    try:
        with open(trace, "rb") as fh:
            fh.seek(max(0, os.path.getsize(trace) - 600 * (n + 2)))
            lines = fh.read().decode(errors="replace").splitlines()[1:]
        recs = []
        for x in lines:
            try:
                recs.append(json.loads(x))
            except ValueError:
                pass
        return [r for r in recs if r.get("e") not in ("Close", "Stats", "World")][-n:]
    except (OSError, ValueError):
        return []


# ---------------------------------------------------------------------------- fixtures
def curved_files(ctx, n, nonsimple=False):
    """Seeded curved worlds (worlds.py curved_world: spheres / cylinders inside boxes placed with arbitrary
    rotations, reflections and translations, up to three levels), built through orangeinp by `vnav dump`
    and written as ordinary .org.json files for the fixture pipeline."""
    vlib.build(["vnav"])
    d = ctx.path("curved")
    os.makedirs(d, exist_ok=True)
    out = []
    for i in range(n):
        w = W.curved_world(ctx.seed + i, nonsimple)
        src = os.path.join(d, w["name"] + ".json")
        dst = os.path.join(d, w["name"] + ".org.json")
        with open(src, "w") as fh:
            json.dump(w, fh)
        r = _run_vnav(["dump", src, dst], 300)
        if r.returncode != 0:
            raise vlib.Broken("vnav dump of curved world %s failed (exit %d): %s" % (src, r.returncode, (r.stderr or "")[-1500:]))
        out.append(dst)
    return out


def fixture_files():
    fs = sorted(glob.glob(os.path.join(vlib.REPO, "test/orange/data/*.org.json"))
                + glob.glob(os.path.join(vlib.REPO, "test/geocel/data/*.org.json")))
    return fs


def fixtures(ctx, prefixes, nrays, nwalks, nprobes, nturns=0, maxpar=8, nshards=6, extra_files=()):
    """Straight rays + random protocol walks + safety probes + boundary-turn histories on the bundled
    fixtures (and extra geometry files, e.g. generated curved worlds).  nrays/nwalks/nprobes/nturns are
    TOTALS, spread over the files.  Returns totals dict."""
    vlib.build(["vnav"])
    fs = [] if skip("fixtures") else fixture_files() + list(extra_files)
    only = [x for x in os.environ.get("VERIF_NAV_FIXTURES", "").split(",") if x]
    if only:
        fs = [f for f in fs if os.path.basename(f).replace(".org.json", "") in only]
    skipped = {}
    usable = []
    for f in fs:
        txt = open(f).read()
        if '"inv"' in txt:
            skipped[os.path.basename(f)] = "involute surfaces (reading them crashes: F-JSON-1; oracle unsupported)"
            continue
        dup = _duplicate_surface(json.loads(txt))
        if dup:
            # validity gate on the input: exactly coincident duplicate surfaces bound a zero-thickness
            # volume (lead-box.org.json: `world` between two identical boxes at +-5e9)
            skipped[os.path.basename(f)] = "degenerate input: unit '%s' has coincident duplicate surfaces %s" % dup
            continue
        usable.append(f)
    n = max(1, len(usable))
    per = lambda tot: max(1, (tot + n - 1) // n) if tot else 0
    boost = {}
    tboost = {}
    pboost = {}
    jobs = []
    for i, f in enumerate(usable):
        # the feature of finding F-NAV-2 (a daughter held by a volume whose logic is a union) gets 8x the
        # share so that the named deviation is exercised, not just tolerated
        jf = json.load(open(f))
        boost[f] = 8 if _union_boundary_feature(jf) else 1
        # curved surfaces inside a daughter universe: where set_dir's normal depends on the LOCAL position
        tboost[f] = 6 if _curved_daughter_feature(jf) else 1
        # surfaces without a simple safety distance (cones, quadrics): more safety probes
        pboost[f] = 6 if _nonsimple_feature(jf) else 1
        # the two geocel/orange duplicates get different seeds
        base = "%02d_%s" % (i, os.path.basename(f).replace(".org.json", ""))
        jobs.append((f, base, ctx.path(base + ".raw.ndjson"), ctx.path(base + ".ann.ndjson")))

    def run(job):
        f, base, raw, ann = job
        focus = raw.replace(".raw.ndjson", ".focus.json")
        with open(focus, "w") as fh:
            json.dump(_focus_boxes(json.load(open(f))), fh)
        planf = raw.replace(".raw.ndjson", ".plan.json")
        nplan = pboost[f] * per(nprobes)
        if nplan:
            # probe points near the surrounding surfaces + ray directions aimed at their nearest points,
            # computed from the geometry file alone by the independent oracle
            pr = subprocess.run([VT_PY, os.path.join(vlib.ROOT, "tools", "navfacts.py"), "plan", f,
                                 str(ctx.seed + 31 * (jobs.index(job) + 1)), str(nplan), planf],
                                stdout=subprocess.PIPE, stderr=subprocess.PIPE, text=True, timeout=3000)
            if pr.returncode != 0:
                return ("oracle", pr.returncode, pr.stderr[-1500:])
        else:
            with open(planf, "w") as fh:
                fh.write("[]")
        r = _run_vnav(["fixture", f, ctx.seed + 17 * (jobs.index(job) + 1), boost[f] * per(nrays), boost[f] * per(nwalks),
                       per(nprobes), tboost[f] * per(nturns), raw, focus, planf], 1200)
        if r.returncode != 0:
            return ("harness", r.returncode, (r.stderr or "")[-1500:])
        a = subprocess.run([VT_PY, os.path.join(vlib.ROOT, "tools", "navfacts.py"), f, raw, ann],
                           stdout=subprocess.PIPE, stderr=subprocess.PIPE, text=True, timeout=3000)
        if a.returncode == 7:
            return ("unsupported", 7, a.stdout.strip())
        if a.returncode != 0:
            return ("oracle", a.returncode, a.stderr[-1500:])
        return ("ok", 0, json.loads(a.stdout.strip().splitlines()[-1]))
    with cf.ThreadPoolExecutor(max_workers=maxpar) as ex:
        outs = list(ex.map(run, jobs))
    good = []
    tot = {"fixtures": 0, "records": 0, "oracle_queries": 0, "discarded": {}, "normals": {}, "facts": {"T": 0, "F": 0, "U": 0},
           "skipped": skipped, "stat": {}, "dev": {}, "other_clauses": set()}
    for job, (kind, rc, info) in zip(jobs, outs):
        f, base, raw, ann = job
        if kind == "unsupported":
            skipped[os.path.basename(f)] = "oracle: " + str(info)
            continue
        if kind == "harness":
            if rc == 124:
                ctx.violation("vnav fixture on %s timed out" % f, tags={"clause": "C03.ExitsWorld", "fixture": os.path.basename(f)})
                continue
            if rc < 0 or rc in (134, 139) or (rc == 5 and _has_abort(raw)):
                # crash of the navigator inside the harness (signal / exception while navigating)
                ctx.violation("vnav crashed on fixture %s (exit %d): %s" % (f, rc, info),
                              tags={"clause": "C03.Abort", "fixture": os.path.basename(f)}, files=[raw])
                continue
            raise vlib.Broken("vnav fixture %s failed (exit %d): %s" % (f, rc, info))
        if kind == "oracle":
            raise vlib.Broken("navfacts/oracle failed on %s: %s" % (f, info))
        good.append(job)
        tot["fixtures"] += 1
        tot["records"] += info["records"]
        tot["oracle_queries"] += info["queries"]
        for k, v in info["discarded"].items():
            tot["discarded"][k] = tot["discarded"].get(k, 0) + v
        for k, v in info["facts"].items():
            tot["facts"][k] = tot["facts"].get(k, 0) + v
        for k, v in info.get("normals", {}).items():
            tot["normals"][k] = tot["normals"].get(k, 0) + v
    # shards: concatenated annotated traces, remember the record ranges
    groups = vlib.shards(good, nshards) if good else []
    tj, ranges = [], []
    for gi, g in enumerate(groups):
        path = ctx.path("fixtures_%02d.ndjson" % gi)
        rng = []
        line = 0
        with open(path, "w") as fh:
            for job in g:
                with open(job[3]) as src:
                    txt = src.read()
                k = txt.count("\n")
                rng.append((line + 1, line + k, job))
                line += k
                fh.write(txt)
        ranges.append(rng)
        tj.append(dict(module="RayNavTrace", cfg="RayNavTrace", workers=1, env=dict(JVM, TRACE=path), timeout=3000, heap="3g"))
    res = vlib.tlc_parallel(tj, maxpar=maxpar)
    samples = []
    for gi, (g, r) in enumerate(zip(groups, res)):
        path = ctx.path("fixtures_%02d.ndjson" % gi)
        m = re.search(r'<<"SUMMARY", "(.*)">>', r.out)
        if r.code != 0 or not m:
            if "REJECTED" in r.out or r.violated:
                raise vlib.Broken("fixture trace shard %d rejected for a protocol-order reason (harness/annotator fault):\n%s"
                                  % (gi, vlib.rejected_info(r)))
            raise vlib.Broken("TLC failed on fixture shard %d (exit %d):\n%s" % (gi, r.code, r.out[-3000:]))
        summ = json.loads(m.group(1).replace('\\"', '"'))
        for k, v in summ["stat"].items():
            tot["stat"][k] = tot["stat"].get(k, 0) + v

        def where(lno):
            for a, b, job in ranges[gi]:
                if a <= lno <= b:
                    return job, lno - a + 1
            return None, lno
        viol = summ["viol"] if isinstance(summ["viol"], dict) else {}
        for clause, v in sorted(viol.items()):
            job, rel = where(v["first"])
            fx = os.path.basename(job[0]) if job else "?"
            if any(clause.startswith(p) for p in prefixes):
                tags = {"clause": clause, "fixture": fx}
                feat = _fixture_feature(job[2], rel) if job else ""
                if feat:
                    tags["feature"] = feat
                ctx.violation("clause %s violated on fixture %s (%d hits in shard %d; first at record %d of %s)\n%s"
                              % (clause, fx, v["n"], gi, rel, os.path.basename(job[3]) if job else "?",
                                 _context(job[2], job[3], rel) if job else ""),
                              tags=tags, files=[job[2], job[3]] if job else [path])
            else:
                tot["other_clauses"].add(clause)
        devs = summ["dev"] if isinstance(summ["dev"], dict) else {}
        for dname, v in sorted(devs.items()):
            job, rel = where(v["first"])
            fx = os.path.basename(job[0]) if job else "?"
            tot["dev"][dname] = tot["dev"].get(dname, 0) + v["n"]
            # deviations of the safety clauses belong to C11, all others to C03
            owner = "C11" if dname.startswith("Safety") else "C03"
            if any(p.startswith(owner) for p in prefixes):
                ctx.violation("named deviation %s: %d hits on fixture %s (first at record %d)\n%s"
                              % (dname, v["n"], fx, rel, _context(job[2], job[3], rel) if job else ""),
                              tags={"deviation": dname, "fixture": fx}, files=[job[2], job[3]] if job else [path])
        if g and len(samples) < 3:
            recs = vlib.read_ndjson(g[0][2])
            samples.append({"fixture": os.path.basename(g[0][0]), "raw_records": recs[1:6]})
    tot["other_clauses"] = sorted(tot["other_clauses"])
    return tot, samples


def _focus_boxes(j, maxboxes=40):
    """Bounding boxes (global frame) of the volumes of universe 0 and of its daughters' volumes, as
    far as the input states them: start points are concentrated there so that small features
    (daughter universes a few units wide in a world hundreds wide) are actually visited."""
    us = j.get("universes", [])
    out = []

    def finite(b):
        return b and all(abs(x) < 1e8 for x in b[0] + b[1]) and all(b[1][k] > b[0][k] for k in range(3))

    def xform(b, tr):
        if not tr:
            return b
        if len(tr) == 3:
            return [[b[0][k] + tr[k] for k in range(3)], [b[1][k] + tr[k] for k in range(3)]]
        R, t = [tr[0:3], tr[3:6], tr[6:9]], tr[9:12]
        cs = [[(b[i][0], b[jj][1], b[kk][2])] for i in (0, 1) for jj in (0, 1) for kk in (0, 1)]
        pts = [[sum(R[r][c] * p[0][c] for c in range(3)) + t[r] for r in range(3)] for p in cs]
        return [[min(p[k] for p in pts) for k in range(3)], [max(p[k] for p in pts) for k in range(3)]]

    def walk(ui, tr, depth):
        if ui >= len(us) or depth > 2:
            return
        u = us[ui]
        vols = u.get("volumes") or u.get("cells") or []
        for v in vols:
            b = v.get("bbox") if isinstance(v, dict) else None
            if finite(b):
                out.append(xform(b, tr))
        ds = u.get("daughters") or []
        trs = u.get("transforms")
        if trs is None and u.get("translations"):
            fl = u["translations"]
            trs = [fl[3 * i:3 * i + 3] for i in range(len(fl) // 3)]
        if tr is None or not tr:
            for i, d in enumerate(ds[:12]):
                if isinstance(d, int):
                    walk(d, (trs[i] if trs and i < len(trs) else None) or [0, 0, 0], depth + 1)
    if us:
        walk(0, None, 0)
    return out[:maxboxes]


def _fixture_feature(raw, rel):
    """F-NAV-1 signature in a fixture history (same rule as classify())."""
    try:
        rr = vlib.read_ndjson(raw)
    except OSError:
        return ""
    k = rel - 1
    while k > 0 and rr[k].get("e") != "Init":
        k -= 1
    return classify(rr[k:rel])


def _nonsimple_feature(j):
    for u in j.get("universes", []):
        sf = u.get("surfaces")
        if isinstance(sf, dict) and any(t in ("kx", "ky", "kz", "sq", "gq") for t in sf.get("types", [])):
            return True
    return False


def _curved_daughter_feature(j):
    """Some universe other than the global one has a curved surface (anything but a plane)."""
    for u in j.get("universes", [])[1:]:
        sf = u.get("surfaces")
        if isinstance(sf, dict) and any(t not in ("px", "py", "pz", "p") for t in sf.get("types", [])):
            return True
    return False


def _union_boundary_feature(j):
    for u in j.get("universes", []):
        vols = u.get("volumes") or u.get("cells") or []
        for pc in (u.get("parent_cells") or u.get("parent_volumes") or []):
            if isinstance(pc, int) and pc < len(vols) and "|" in str(vols[pc].get("logic", "")):
                return True
    return False


def _duplicate_surface(j):
    for u in j.get("universes", []):
        sf = u.get("surfaces")
        if not isinstance(sf, dict) or "types" not in sf:
            continue
        off, seen = 0, set()
        for t, n in zip(sf["types"], sf["sizes"]):
            key = (t, tuple(sf["data"][off:off + n]))
            off += n
            if key in seen:
                return (u.get("md", {}).get("name", "?"), "%s%s" % key)
            seen.add(key)
    return None


def _context(raw, ann, rel, before=6):
    try:
        rr = vlib.read_ndjson(raw)
        aa = vlib.read_ndjson(ann)
    except OSError:
        return ""
    lo = max(0, rel - 1 - before)
    # back to the Init of this history
    k = rel - 1
    while k > 0 and rr[k].get("e") != "Init":
        k -= 1
    lo = max(k, rel - 1 - 12)
    out = []
    if lo > k:
        out.append("  " + json.dumps(rr[k])[:300])
        out.append("  ...")
    for i in range(lo, rel):
        facts = {x: aa[i][x] for x in aa[i] if x.startswith("f_") or x in ("cmp", "d_is", "rays_ok", "sphere_ok", "dcls")}
        raw_r = {x: rr[i][x] for x in rr[i] if x not in ("path", "lev", "slev", "bres")}
        out.append("  " + json.dumps(raw_r)[:330] + "  facts=" + json.dumps(facts))
    return "\n".join(out)
