#!/bin/sh
# tools/lead_seed.sh <seed-id> [tier]: apply seeded/<id>/patch.diff to the shared scratch worktree /tmp/wt_lead
# (incremental build tree /tmp/wt_lead_vbuild), run the property's check, report, and revert the worktree.
id="$1"; tier="${2:-quick}"; prop="${id%%_*}"
WT=/tmp/wt_lead
LOG=/verif/build/work/seedruns/$id.$tier.log
[ -d $WT ] || git -C /repo worktree add --detach $WT HEAD >/dev/null 2>&1
git -C $WT checkout -- . && git -C $WT apply /verif/seeded/$id/patch.diff || { echo "== $id: patch does not apply"; exit 3; }
/verif/bin/mutcheck $WT $prop --tier $tier > $LOG 2>&1
rc=$?
echo "== $id ($tier): exit=$rc violations=$(grep -c '^VIOLATION' $LOG)"
grep -A2 '^VIOLATION' $LOG | grep -v '^VIOLATION\|^--' | cut -c1-200 | sort | uniq -c | sort -rn | head -6
git -C $WT checkout -- .
exit $rc
