HOOKS = {
    "guard": "CELERITAS_VERIF_HOOKS",
    "enable": "harness/CMakeLists.txt adds -DCELERITAS_VERIF_HOOKS=1 and builds /repo's working tree via add_subdirectory into /verif/build/rel",
    "baseline_off_cmd": "cmake --build /repo/_build -j16 && ctest --test-dir /repo/_build -j8 --timeout 900",
    "source_commits": [],
    "add_only": True,
}
ENGINES = [
    {"name": "tlc", "path": "/opt/veriftools/tla/tla2tools.jar", "serves_properties": [],
     "kind_free_text": "TLC 1.8.0 explicit-state model checker: design models (exhaustive within stated constants) and trace validation of ndjson traces recorded from the real classes (spec/*Trace.tla)"},
]
NOTES = ("Model-based verification with explicit TLA+ specifications (spec/), checked by TLC and bound to the "
         "implementation by trace validation / replay through stand-alone harness executables (harness/) that link "
         "the celeritas libraries rebuilt from /repo's working tree. See DESIGN.md.")
NOT_APPLICABLE = {
    "C20": "per-photon floating-point vector identities (unit length, orthogonality, cone angle) with no discrete state, order or history for a TLA+ specification to own; see DESIGN.md section 5 C20 / section 6",
}
CHECKS = {
    "C18": {
        "engine": "tlc", "level": "exploration", "design_ref": "DESIGN.md 4.7, 5 C18",
        "technique": "TLA+ reference semantics (Algorithms.tla) + TLC trace validation of every result of the real templates; exhaustive enumeration of all sequences up to a bound verified complete by TLC",
        "text": "Every sequence over a 3-5 letter alphabet up to length 5-7 (quick/thorough), all keys/predicates/comparators, is run through the real sort/partition/search/min_element/all_of templates; helpers, ranges, hyperslab indexers, exact linear interpolation over small integer ranges; uniform and non-uniform grid lookups at knots, +-1 ulp and inside bins (doubles as ranks). TLC evaluates the reference definition for each record and also proves the enumeration complete. Exhaustive for the bounded part, sampled beyond.",
        "note": "Trusted: TLC, the rank abstraction in harness/vjson.hh, std::sort for preparing sorted inputs (re-checked by TLC). F-GRID-1 (UniformGrid::find within 1 ulp of knots) is a known finding modelled as the named deviation QueryUlpDeviation.",
    },
}
