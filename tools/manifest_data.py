HOOKS = {
    "guard": "CELERITAS_VERIF_HOOKS",
    "enable": "harness/CMakeLists.txt adds -DCELERITAS_VERIF_HOOKS=1 and builds /repo's working tree via add_subdirectory into /verif/build/rel",
    "baseline_off_cmd": "cmake --build /repo/_build -j16 -- -k 0; ctest --test-dir /repo/_build -j8 --timeout 900",
    "source_commits": [],
    "add_only": True,
}
ENGINES = [
    {"name": "tlc", "path": "/opt/veriftools/tla/tla2tools.jar", "serves_properties": [],
     "kind_free_text": "TLC 1.8.0 explicit-state model checker: design models (exhaustive within stated constants) and trace validation of ndjson traces recorded from the real classes (spec/*Trace.tla)"},
]
NOTES = ("Model-based verification with explicit TLA+ specifications (spec/), checked by TLC and bound to the "
         "implementation by trace validation / replay through stand-alone harness executables (harness/) that link "
         "the celeritas libraries rebuilt from /repo's working tree. See DESIGN.md.")
NOT_APPLICABLE = {
    "C20": "per-photon floating-point vector identities (unit length, orthogonality, cone angle) with no discrete state, order or history for a TLA+ specification to own; see DESIGN.md section 5 C20 / section 6",
}
CHECKS = {
    "C18": {
        "engine": "tlc", "level": "exploration", "design_ref": "DESIGN.md 4.7, 5 C18",
        "technique": "TLA+ reference semantics (Algorithms.tla) + TLC trace validation of every result of the real templates; exhaustive enumeration of all sequences up to a bound verified complete by TLC",
        "text": "Every sequence over a 3-5 letter alphabet up to length 5-7 (quick/thorough), all keys/predicates/comparators, is run through the real sort/partition/search/min_element/all_of templates; helpers, ranges, hyperslab indexers, exact linear interpolation over small integer ranges; uniform and non-uniform grid lookups at knots, +-1 ulp and inside bins (doubles as ranks). TLC evaluates the reference definition for each record and also proves the enumeration complete. Exhaustive for the bounded part, sampled beyond.",
        "note": "Trusted: TLC, the rank abstraction in harness/vjson.hh, std::sort for preparing sorted inputs (re-checked by TLC). F-GRID-1 (UniformGrid::find within 1 ulp of knots) is a known finding modelled as the named deviation QueryUlpDeviation.",
    },
    "C13": {
        "engine": "tlc", "level": "model_checking", "design_ref": "DESIGN.md 4.6, 5 C13, A.5",
        "technique": "TLA+ GF(2) specification of xorwow (Xorwow.tla: step T on 16-bit limbs, characteristic polynomial P, polynomial arithmetic mod P, table laws); TLC design check (XorwowMC: P(T)e_j=0 for all 160 basis vectors, table/digit/z^k/Weyl/injectivity/canonical lemmas); TLC trace validation (XorwowTrace) of every result of the real XorwowRngParams/XorwowRngEngine/Initializer/reseed_rng/GenerateCanonical code",
        "text": "The 64 jump polynomials dumped from XorwowRngParams' host reference are each compared with z^(4^i) and z^(2^67 4^i) mod P computed by TLC from the laws jump[0]=z, jump[i+1]=jump[i]^4, jump_sub[0]=jump[31]^32. discard(n) of the real engine is recomputed as (z^n mod P)(T)s with Weyl word +(n mod 2^32)*362437 for all 160 basis states x all 96 single-digit counts d*4^i (exhaustive; fixes the action of every table entry by linearity), plus seeded random states with random 64-bit n, 0..3, 2^32+-1, 2^64-1. n<=4096 sequential draws are iterated in the spec and compared with discard(n). Initializer{seed,subsequence,offset} and sampled slots of reseed_rng (subsequence = event*size+slot on 64-bit limbs) are recomputed from the seed state read back from the code. Canonical doubles/floats are recomputed bit-exactly and checked < 1.",
        "note": "P is derived by tools/xorwow_poly.py (Berlekamp-Massey) and verified by TLC on every run, not trusted. Trusted: period 2^160-1 (python confirms P primitive, outside TLC); event*size+slot < 2^64; SplitMix64 / mt19937 seeding not modelled (seed state read from the code); TLC, Bitwise module, limb encoding. Host double build only. F-RNG-1 (float canonical = 1.0f for words >= 0xffffff80) is a known finding modelled as the named deviation CanonFOne.",
    },
    "C01": {
        "engine": "tlc", "level": "model_checking", "design_ref": "DESIGN.md 4.1, 5 C01",
        "technique": 'TLA+ specification of the stepping loop (CoreLoop.tla: one action per kernel group, named clauses per property), TLC model checking of an implementation-shaped design model (CoreLoopMC: index arithmetic of the track-init executors refines the clauses; ledgers; capacities) and TLC trace validation (CoreLoopTrace) of seeded real-physics runs of the real Stepper observed by harness actions and callbacks',
        "text": 'Per-step ledger W_pre = W_post + deposit + sum W(secondaries) with W = T + 2mc^2[positron] and per-event ledger W(primaries) = deposits + W(escaped) are evaluated by TLC on every step / event end of every validated run (Compton, pair production, Moller/Bhabha, annihilation, range end, tracking to the world boundary; mean and fluctuating loss; 1-64 slots; starved secondary stack); the design model shows the per-step clause plus exactly-once bookkeeping imply the event balance.',
        "note": 'Trusted: TLC; the observer projection in harness/vsim.cc (reads Stepper::state_ref() through the public track views at generate/user_start/user_pre/user_post/end); quanta/rank/token abstraction of doubles; hand-built synthetic physics tables. The design model CoreLoopMC is exhaustive only within its constants (2-3 slots, <=2 secondaries per step, <=5 tracks, 3 iterations).',
    },
    "C02": {
        "engine": "tlc", "level": "model_checking", "design_ref": "DESIGN.md 4.1, 5 C02",
        "technique": 'TLA+ specification of the stepping loop (CoreLoop.tla: one action per kernel group, named clauses per property), TLC model checking of an implementation-shaped design model (CoreLoopMC: index arithmetic of the track-init executors refines the clauses; ledgers; capacities) and TLC trace validation (CoreLoopTrace) of seeded real-physics runs of the real Stepper observed by harness actions and callbacks',
        "text": 'UniqueIds, PrimariesBecomeInits, StartFromInits, SecondariesBecomeTracks (multiset equality incl. parent, type, energy bits, birth position/time), KilledRemoved, StepsConsecutive, ExactlyOnce (born = finished + live + queued at every Stepper call and at event end), every reported counter and StepperResult, termination under a step cap; the design model proves the transcribed index arithmetic (both TrackOrder::none and init_charge) refines these clauses for all outcome sequences within its constants.',
        "note": 'Trusted: TLC; the observer projection in harness/vsim.cc (reads Stepper::state_ref() through the public track views at generate/user_start/user_pre/user_post/end); quanta/rank/token abstraction of doubles; hand-built synthetic physics tables. The design model CoreLoopMC is exhaustive only within its constants (2-3 slots, <=2 secondaries per step, <=5 tracks, 3 iterations).',
    },
    "C05": {
        "engine": "tlc", "level": "model_checking", "design_ref": "DESIGN.md 4.1, 5 C05",
        "technique": 'TLA+ specification of the stepping loop (CoreLoop.tla: one action per kernel group, named clauses per property), TLC model checking of an implementation-shaped design model (CoreLoopMC: index arithmetic of the track-init executors refines the clauses; ledgers; capacities) and TLC trace validation (CoreLoopTrace) of seeded real-physics runs of the real Stepper observed by harness actions and callbacks',
        "text": 'Continuity of E, t, position (bit tokens) and volume between consecutive steps and from initializer to first step, time/energy monotonicity, step > 0 unless stopped, step <= pre-step limit, step >= chord, reported volume = analytic point-in-box location, volume change only on a boundary step, status forward, on every step of every validated run.',
        "note": 'Trusted: TLC; the observer projection in harness/vsim.cc (reads Stepper::state_ref() through the public track views at generate/user_start/user_pre/user_post/end); quanta/rank/token abstraction of doubles; hand-built synthetic physics tables. The design model CoreLoopMC is exhaustive only within its constants (2-3 slots, <=2 secondaries per step, <=5 tracks, 3 iterations).',
    },
    "C16": {
        "engine": "tlc", "level": "fault_enumeration", "design_ref": "DESIGN.md 4.1, 5 C16",
        "technique": 'TLA+ specification of the stepping loop (CoreLoop.tla: one action per kernel group, named clauses per property), TLC model checking of an implementation-shaped design model (CoreLoopMC: index arithmetic of the track-init executors refines the clauses; ledgers; capacities) and TLC trace validation (CoreLoopTrace) of seeded real-physics runs of the real Stepper observed by harness actions and callbacks',
        "text": 'Fault configurations of the real loop: secondary capacity swept down to 2, initializer capacity from 1; every failed interaction must be clean (alive, nothing emitted, ledger intact), every capacity error justified by the configured capacity and raised before the count exceeds it, reset restores the start state and later events satisfy C01/C02 clauses; the design model enumerates every first-hit point of the initializer capacity. F-CAP-1 (capacity below one reservation => livelock) is a known finding.',
        "note": 'Trusted: TLC; the observer projection in harness/vsim.cc (reads Stepper::state_ref() through the public track views at generate/user_start/user_pre/user_post/end); quanta/rank/token abstraction of doubles; hand-built synthetic physics tables. The design model CoreLoopMC is exhaustive only within its constants (2-3 slots, <=2 secondaries per step, <=5 tracks, 3 iterations).',
    },
    "C17": {
        "engine": "tlc", "level": "model_checking", "design_ref": "DESIGN.md 4.1, 5 C17",
        "technique": 'TLA+ specification of the stepping loop (CoreLoop.tla: one action per kernel group, named clauses per property), TLC model checking of an implementation-shaped design model (CoreLoopMC: index arithmetic of the track-init executors refines the clauses; ledgers; capacities) and TLC trace validation (CoreLoopTrace) of seeded real-physics runs of the real Stepper observed by harness actions and callbacks',
        "text": "For six callback configurations (unfiltered full/partial selection, detector maps, nonzero filter combinations, SimpleCalo) the set of steps each callback received equals the set of observed steps passing the collector's combined filter, every delivered field equals the independently observed pre/post value bit for bit, calorimeter totals equal sums of passing deposits, ActionDiagnostic / StepDiagnostic equal the counts of observed steps. F-DIAG-1 (ActionDiagnostic skipped with one slot) was found by this check and fixed.",
        "note": 'Trusted: TLC; the observer projection in harness/vsim.cc (reads Stepper::state_ref() through the public track views at generate/user_start/user_pre/user_post/end); quanta/rank/token abstraction of doubles; hand-built synthetic physics tables. The design model CoreLoopMC is exhaustive only within its constants (2-3 slots, <=2 secondaries per step, <=5 tracks, 3 iterations).',
    },
    "C06": {
        "engine": "tlc", "level": "model_checking", "design_ref": "DESIGN.md 4.3, 5 C06",
        "technique": "TLC enumerates every history of Run/Abort+reset/WarmUp operations (Histories.tla, with the leftover-state model CleanBeforeRun); each history is replayed on one real Stepper state by harness/vhist under cycled re-indexing orders / action_times / status checker; TLC trace validation (HistoriesTrace.tla) requires bit-identical per-track step streams for equal (event, primaries, slots, layout, physics) keys",
        "text": "All operation sequences of length 2 (quick) / 3 (thorough) over 3 events x 3 abort points are executed on real Stepper states with 1-32 slots, both slot layouts, mean/fluctuating loss; every completed event is compared token by token (all StepSelection::all() fields, bit patterns) with the first observation of the same key made under a different history or configuration; a rejection names the first differing step.",
        "note": "Trusted: TLC; the interning of bit patterns in harness/vhist.cc (one table per process; equal keys are always executed in the same process). Thread-order independence is C07's half. The hand-built problem has no field/MSC/looping leftovers.",
    },
    "C07": {
        "engine": "tlc", "level": "model_checking", "design_ref": "DESIGN.md 4.3, 5 C07",
        "technique": "TLA+ model of stream threads (Streams.tla: call-level program + access-level lazy initialisers, vector-clock happens-before race detector, per-stream slot discipline) model-checked by TLC for 3 threads with as-coded / shared-slot mutants refuted as vacuity guards; TLC-generated call-level schedules replayed under a baton by harness/vstreams on real std::threads sharing one CoreParams, free-running phases, all validated by TLC for bit-exact serial equivalence (HistoriesTrace.tla); ThreadSanitizer build as recorder of access-level Race events",
        "text": "Every per-event step stream and the ActionDiagnostic totals obtained with 2-16 concurrent streams (baton-replayed TLC schedules and free-running, shuffled event->stream assignments, diagnostics and status checker on/off, 1-8 slots) are compared token by token with the single-stream serial reference; the same free-running phases run on a -fsanitize=thread build and any data-race report with a celeritas frame is a violation. F-MT-1 and F-MT-2 (unsynchronised lazy initialisation in ActionDiagnostic and StatusChecker) were found by this check and repaired.",
        "note": "Trusted: TLC; ThreadSanitizer (gcc 12, OpenMP off in that variant) as event recorder -- it only sees races exposed by executed schedules; the baton serialises Stepper calls (construction, each step), not individual memory accesses. Event-level parallelism only in this build (one Stepper per thread).",
    },
}
