#!/usr/bin/env python3
"""tools/mk_extra_prompt.py ID MOD HARN 'subject text' -> prompt on stdout"""
import sys, os
ID, MOD, HARN, SUBJ = sys.argv[1:5]
s = open(os.path.join(os.path.dirname(__file__), "prompts", "extra_spec.md")).read()
print(s.replace("@ID@", ID).replace("@id@", ID.lower()).replace("@MOD@", MOD).replace("@HARN@", HARN).replace("@SUBJECT@", SUBJ))
