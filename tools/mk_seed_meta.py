#!/usr/bin/env python3
"""tools/mk_seed_meta.py <seeded-dir> <json-with-lead-fields>: merge the agent's meta with the lead's confirmation."""
import json, sys, os
sd = sys.argv[1]; lead = json.loads(sys.argv[2])
src = os.path.join(sd, "meta_agent.json")
if not os.path.exists(src):
    os.rename(os.path.join(sd, "meta.json"), src)
a = json.load(open(src))
m = {"property": a["property"], "summary": a["summary"], "needs": a["needs"], "files": a["files"],
     "origin": "fresh sub-agent given only the property text (tools/prompts/seed_mutation.md), own scratch worktree",
     "agent_reported": {k: a[k] for k in ("existing_tests_run", "existing_tests_passed", "demo_passes_on_unchanged",
                                          "demo_fails_on_changed") if k in a}}
m.update(lead)
json.dump(m, open(os.path.join(sd, "meta.json"), "w"), indent=1)
os.remove(src)
