#!/usr/bin/env python3
"""Create a scratch worktree /tmp/mut_<Cnn> and print the prompt for a mutation-seeding sub-agent
(property text only -- nothing from /verif's machinery)."""
import json, subprocess, sys
props = {json.loads(l)['id']: json.loads(l) for l in open('/verif/properties.jsonl')}
tmpl = open('/verif/tools/prompts/seed_mutation.md').read()
hints = {
 "C02": "HINT: the relevant machinery is the track-initialisation code under src/celeritas/track (ExtendFromPrimaries/Secondaries, InitializeTracks and their detail/*Executor.hh, TrackInitAlgorithms) and the Stepper; think of configurations such as few track slots, secondaries produced while all slots are busy, primaries inserted while tracks are in flight, TrackOrder::init_charge.",
 "C17": "HINT: the relevant machinery is under src/celeritas/user (StepCollector, detail/StepGatherExecutor.hh, detail/StepParams.cc, SimpleCalo, ActionDiagnostic, StepDiagnostic); think of detector-volume filters, the non-zero-deposit filter, several callbacks, inactive slots, single-slot states.",
 "C01": "HINT: the relevant machinery is in src/celeritas/phys/InteractionApplier.hh, src/celeritas/global/alongstep/detail/*, src/celeritas/phys/detail/TrackingCutExecutor.hh, CutoffView.hh; think of positrons (2mc^2), secondaries below the production cut, range-limited steps, fluctuating loss.",
 "C05": "HINT: the relevant machinery is in src/celeritas/phys/detail/PreStepExecutor.hh, src/celeritas/global/alongstep/detail/*, src/celeritas/geo/detail/BoundaryExecutor.hh, src/celeritas/track/SimTrackView.hh.",
 "C16": "HINT: the relevant machinery is src/corecel/data/StackAllocator.hh, src/celeritas/phys/InteractionApplier.hh, src/celeritas/track/ExtendFromSecondariesAction.cc, ExtendFromPrimariesAction.cc, CoreState reset.",
 "C06": "HINT: the relevant machinery is src/celeritas/global/Stepper.cc, CoreState.cc (reset), src/celeritas/random/RngReseed.*, src/celeritas/track/detail/InitTracksExecutor.hh, SortTracksAction / TrackSortUtils.",
 "C07": "HINT: the relevant machinery is whatever is shared between streams: src/corecel/data/StreamStore.hh, AuxStateVec, diagnostics under src/celeritas/user, StatusChecker, CoreParams; a demonstration may use several std::threads each owning a Stepper on shared CoreParams (ThreadSanitizer: g++ -fsanitize=thread is available).",
 "C18": "HINT: the relevant machinery is src/corecel/math/Algorithms.hh + detail/AlgorithmsImpl.hh, src/corecel/cont/Range.hh, src/corecel/data/HyperslabIndexer.hh, src/corecel/grid/*.hh.",
 "C13": "HINT: the relevant machinery is src/celeritas/random/XorwowRngEngine.hh, XorwowRngParams.cc, RngReseed.cc, detail/GenerateCanonical32.hh.",
 "C12": "HINT: the relevant machinery is src/orange/surf/*.hh, surf/detail/*, src/orange/transform/*.",
 "C10": "HINT: the relevant machinery is src/orange/orangeinp/CsgTree*, CsgTreeUtils*, detail/NodeSimplifier*, DeMorganSimplifier*, NodeReplacer.hh, PostfixLogicBuilder*, InternalSurfaceFlagger*, src/orange/univ/detail/LogicEvaluator.hh.",
 "C03": "HINT: the relevant machinery is src/orange/OrangeTrackView.hh, src/orange/univ/SimpleUnitTracker.hh, RectArrayTracker.hh, univ/detail/*.",
 "C11": "HINT: the relevant machinery is the safety code in src/orange/OrangeTrackView.hh, src/orange/univ/SimpleUnitTracker.hh, univ/detail/SurfaceFunctors.hh and the surfaces' calc_safety-like helpers.",
 "C08": "HINT: the relevant machinery is src/celeritas/field/FieldPropagator.hh, FieldDriver.hh, the steppers and detail/FieldUtils.hh.",
 "C14": "HINT: the relevant machinery is src/celeritas/grid/*Calculator.hh, XsGridData.hh, ValueGridBuilder.cc, src/celeritas/phys/PhysicsStepUtils.hh, src/celeritas/em/msc/detail/MscStep*.hh.",
 "C04": "HINT: the relevant machinery is src/celeritas/em/interactor/*.hh and src/corecel/data/StackAllocator.hh.",
 "C15": "HINT: the relevant machinery is src/celeritas/random/distribution/*.hh, src/celeritas/random/Selector.hh, src/celeritas/em/distribution/*.hh.",
 "C09": "HINT: the relevant machinery is src/orange/orangeinp/* (IntersectRegion.cc, IntersectSurfaceBuilder, Solid, PolySolid, Transformed, CsgObject, UnitProto, detail/*).",
 "C19": "HINT: the relevant machinery is src/orange/OrangeInputIO.json.cc, detail/OrangeInputIOImpl.json.cc, surf/SurfaceIO.cc, transform/TransformIO.cc, src/geocel/BoundingBoxIO.json.cc.",
}
pid = sys.argv[1]
suffix = sys.argv[2] if len(sys.argv) > 2 else ""
p = props[pid]
wt = '/tmp/mut_%s%s' % (pid, suffix)
subprocess.run(['git', '-C', '/repo', 'worktree', 'add', '--detach', wt, 'HEAD'], check=False,
               stdout=subprocess.DEVNULL, stderr=subprocess.DEVNULL)
print(tmpl.format(WT=wt, TITLE=p['title'], STATEMENT=p['statement'], QUANT=p['quantifier']['text'],
                  HINT=hints.get(pid, ''), PID=pid))
