#!/opt/veriftools/pyvenv/bin/python
"""Environment facts for fixture traces of harness/vnav.cc (C03 / C11 on general geometries).

    navfacts.py <file.org.json> <raw.ndjson> <annotated.ndjson>

The raw trace carries doubles (positions, directions, distances, safeties).  TLC cannot and
should not do real-valued geometry (DESIGN.md section 0), so this tool turns every record
into DISCRETE facts decided by the independent point locator tools/oracle_geo.py (written from
the geometry definition, never calling ORANGE) and by tolerant numeric comparisons:

  f_vol   T/F/U  oracle volume at the track's LOGICAL point == reported volume label
                 (interior: pos; on a boundary before crossing: pos - eps*arrival direction;
                 after crossing: pos + eps*direction at the time of crossing)
  f_out   T/F/U  oracle says outside == reported is_outside
  f_rev   T/F/U  (on a crossed boundary) the current direction leads back across the surface:
                 oracle path at pos + eps*dir differs from the logical path
  f_same  T/F/U  (Find*) every valid sample point strictly inside (0, d) has the logical path
  f_change T/F/U (Find* with boundary) oracle path just beyond d differs from just before d
  cmp, d_is      (FindMax right after Find in the same state) sign(d_unlimited - m) and whether
                 the reported distance equals d_unlimited / m (relative tolerance 1e-9)
  x_ok           MoveI precondition 0 < x <= cached distance (and < if a boundary is cached)
  f_dec   T/F/U  (SetDir on a boundary) the exiting / re-entrant decision the navigator took (its
                 boundary flag after the call) == the decision implied by the TRUE surface normal:
                 the independent oracle finds the surface the point lies on (smallest |f|/|grad f|
                 over the surfaces of every level of the arrival-side chain, each evaluated at the
                 position LOCAL to that level), takes the gradient of its quadric there and rotates
                 it to the global frame; before crossing the track exits iff sign(dir.n) ==
                 sign(arrival.n); after crossing it has turned back iff sign(dir.n) != sign(dir at
                 crossing . n).  U when |dir.n| < 1e-6 (tangent) or the point is on an edge.
                 dx/dr/dt count the judged exiting / re-entrant / nearly tangent (|dir.n| < 0.05) turns.
                 With a valid normal the LOGICAL point is displaced along +-n instead of along the
                 direction, so that nearly tangent turns remain judgeable.
  f_pos   T/F    reported position == position implied by the operations (1e-9 relative)
  rays_ok/nrays, sphere_ok  (Safety) every ray later shot from the same point travels at
                 least the safety; no valid point of the sphere of radius s(1-1e-6) in 26+38 directions
                 plus directions AIMED at the nearest points of the surrounding surfaces lies in
                 another volume
  near_ok/nnear  (Safety) s <= every confirmed upper bound of the true distance to the volume's
                 boundary: the oracle computes, for each nearby surface of every level, a point ON
                 that surface close to the track (closest-point iteration on the quadric, LOCAL
                 coordinates of that level) and confirms by point location just beyond it that the
                 volume path changes there

    navfacts.py plan <file.org.json> <seed> <n> <plan.json>
writes n probe points for the harness: interior points pushed towards nearby surfaces (curved and
non-simple ones preferred), each with ray directions aimed at the nearest surface points.
U = the oracle's validity gate discarded a point (near a surface, overlapping volumes as in
universes.org.json, gap) -- such facts are never judged; they are counted.

eps = 2e-5 * max(1, |pos|_inf) (oracle guard is 1e-6 * max(1, |coord|)).
"""
import json
import math
import sys

import numpy as np

import oracle_geo

REL = 1e-9


def eps_at(p):
    return 2e-5 * max(1.0, float(np.max(np.abs(p))))


def close(a, b):
    return abs(a - b) <= REL * max(1.0, abs(a), abs(b))


class Annotator:
    def __init__(self, geofile):
        self.geo = oracle_geo.OracleGeo(geofile)
        self.queries = []      # points
        self.discarded = {}
        self.normals = {}      # outcome of the oracle's normal computation per boundary reached

    # pass 1 collects query points; pass 2 uses the located results
    def q(self, p):
        self.queries.append(np.asarray(p, dtype=float))
        return len(self.queries) - 1

    def locate_all(self):
        if not self.queries:
            self.res = []
            return
        pts = np.vstack(self.queries)
        self.res = self.geo.locate(pts)

    def key(self, i):
        r = self.res[i]
        if not r["valid"]:
            self.discarded[r["why"]] = self.discarded.get(r["why"], 0) + 1
            return None
        if r["outside"]:
            return ("<outside>",)
        return tuple(tuple(x) for x in r["path"])

    def label(self, i):
        r = self.res[i]
        if not r["valid"]:
            return None
        return "<outside>" if r["outside"] else r["label"]


def tfu(v):
    return "U" if v is None else ("T" if v else "F")


def run(geofile, raw, outpath):
    an = Annotator(geofile)
    recs = [json.loads(l) for l in open(raw) if l.strip()]
    plan = []   # per record: dict of query indices / numeric facts
    # protocol state tracked from the operations (phase, pos, dir, ref, cached step, d_unlimited)
    ph = "O"
    pos = dirv = ref = None
    has = nb = False
    nd = 0.0
    du = None
    probes = []   # (record index of Safety / SafetyMax, s, pos, [(dir, d)...])
    cur_probes = []   # the probes taken at the current position (rays shot later from it count for all)
    last_s = None     # unlimited safety reported at the current position (radius of legal MoveTo targets)
    nrm = None    # true unit normal (global) of the surface the track sits on, from the oracle
    s_arr = 0.0   # arrival direction . normal
    s_ref = 0.0   # (direction at crossing) . normal
    TAN = 1e-6

    def sgn(x):
        return 1.0 if x > 0 else -1.0
    for idx, r in enumerate(recs):
        e = r["e"]
        P = {}
        if e in ("World", "Close", "Stuck", "Abort"):
            plan.append(P)
            continue
        if e == "Init":
            pos = np.array(r["pos"], dtype=float)
            dirv = np.array(r["dir"], dtype=float)
            ref = None
            nrm = None
            ph = "I"
            has = nb = False
            nd = 0.0
            du = None
            cur_probes = []
            last_s = None
            P["start"] = an.q(pos)
        elif e in ("Find", "FindMax"):
            d = r["d"]
            P["pre_ph"] = ph
            if ph == "Bp":
                ep = eps_at(pos)
                if nrm is not None and abs(s_ref) >= TAN and abs(float(np.dot(dirv, nrm))) >= TAN:
                    P["rev_n"] = bool(float(np.dot(dirv, nrm)) * s_ref < 0)
                else:
                    P["rev_a"] = an.q(pos + ep * dirv)
                    P["rev_b"] = an.q(pos + ep * ref)
            if d is not None and d > 0:
                ep = eps_at(pos)
                ts = [f * d for f in (0.07, 0.21, 0.38, 0.5, 0.66, 0.83, 0.95)]
                if d > 4 * ep:
                    ts += [2 * ep, d - 2 * ep]
                P["same"] = [an.q(pos + t * dirv) for t in ts if 0 < t < d]
                if r["b"] and d > 4 * ep:
                    P["chg"] = (an.q(pos + (d - 2 * ep) * dirv), an.q(pos + (d + 2 * ep) * dirv))
            if e == "Find":
                du = d if (d is not None) else None
            else:
                m = r["m"]
                if du is not None and du > 0 and d is not None:
                    P["cmp"] = 0 if close(du, m) else (-1 if du < m else 1)
                    P["d_is"] = "du" if close(d, du) else ("m" if close(d, m) else "other")
            has = d is not None and d != 0
            nd = d if d is not None else 0.0
            nb = bool(r["b"]) and d is not None
            if e == "Find" and d is not None:
                for cp in cur_probes:
                    cp[3].append((dirv.copy(), d))
        elif e == "MoveI":
            x = r["x"]
            P["x_ok"] = bool(has and 0 < x <= nd and (x < nd or not nb))
            P["rem"] = bool(nd - x != 0)
            pos = pos + x * dirv
            ph = "I"
            ref = None
            nrm = None
            nd = nd - x
            has = nd != 0
            nb = nb and has
            du = None
            cur_probes = []
            last_s = None
        elif e == "MoveB":
            P["legal"] = bool(has and nb)
            pos = pos + nd * dirv
            ph = "Bm"
            ref = dirv.copy()
            has = nb = False
            nd = 0.0
            du = None
            cur_probes = []
            last_s = None
            na = an.geo.normal_at(pos, pos - eps_at(pos) * ref)
            nrm = na["n"] if na["valid"] else None
            # a second, non-parallel surface within 10 eps of the point: edge / corner of the geometry,
            # where the eps-displaced logical points are meaningless -- the history is not judged further
            P["edge"] = bool(na.get("why") == "edge")
            an.normals[na["why"] or "ok"] = an.normals.get(na["why"] or "ok", 0) + 1
            s_arr = float(np.dot(ref, nrm)) if nrm is not None else 0.0
            if nrm is not None and abs(s_arr) < TAN:
                nrm = None
        elif e == "Cross":
            ph = "Bp"
            ref = dirv.copy()
            s_ref = float(np.dot(ref, nrm)) if nrm is not None else 0.0
            du = None
        elif e == "SetDir":
            dirv = np.array(r["dir"], dtype=float)
            has = nb = False
            nd = 0.0
            du = None
            if ph in ("Bm", "Bp") and nrm is not None and "bres" in r:
                s_new = float(np.dot(dirv, nrm))
                base = s_arr if ph == "Bm" else s_ref
                if abs(s_new) >= TAN and abs(base) >= TAN:
                    # Bm: exits iff it keeps going the way it arrived; Bp: the flag is "exiting" iff
                    # the direction still leads away from the surface on the side it crossed to
                    want_exiting = (s_new * base > 0)
                    P["dec"] = bool((r["bres"] == "exiting") == want_exiting)
                    P["dkind"] = ("x" if want_exiting else "r", abs(s_new) < 0.05)
        elif e == "MoveTo":
            tgt = np.array(r["p"], dtype=float)
            P["within"] = bool(ph == "I" and last_s is not None
                               and float(np.linalg.norm(tgt - pos)) <= last_s * (1 + 1e-12))
            pos = tgt
            ph = "I"
            ref = None
            nrm = None
            has = nb = False
            nd = 0.0
            du = None
            cur_probes = []
            last_s = None
        elif e == "Copy":
            dirv = np.array(r["dir"], dtype=float)
            has = nb = False
            nd = 0.0
            du = None
        elif e in ("Safety", "SafetyMax"):
            s = r["s"]
            P["s"] = s
            cur_probe = [idx, s, pos.copy(), []]
            probes.append(cur_probe)
            cur_probes.append(cur_probe)
            if e == "Safety":
                last_s = s if (s is not None and s > 0) else None
            # F-SAFE-1 scope: a sphere / cylinder FACE of the point's volume (any level of its chain) whose
            # gradient vanishes at the local point (centre of the sphere, axis of the cylinder)
            P["centre"] = bool(an.geo.zero_gradient_face(pos))
            if s is not None and s > 0:
                us = []
                for i in (-1, 0, 1):
                    for j in (-1, 0, 1):
                        for k in (-1, 0, 1):
                            if i or j or k:
                                v = np.array([i, j, k], dtype=float)
                                us.append(v / np.linalg.norm(v))
                rng = np.random.default_rng(idx)
                for _ in range(38):
                    v = rng.normal(size=3)
                    us.append(v / np.linalg.norm(v))
                # aimed directions: towards the nearest points of the surrounding surfaces (independent
                # closest-point computation of the oracle), each with a small cone of neighbours
                near = an.geo.nearest_dirs(pos)[:6]
                for (dk, uk, _lev, _st) in near:
                    us.append(uk)
                    for _ in range(4):
                        v = uk + 0.1 * rng.normal(size=3)
                        us.append(v / np.linalg.norm(v))
                P["sphere0"] = an.q(pos)
                P["sphere"] = [an.q(pos + s * (1 - 1e-6) * u) for u in us]
                # explicit upper bounds of the true distance to the boundary of the point's volume: the
                # surface point found at distance dk along uk bounds the volume there iff the volume path
                # changes just beyond it
                # (the CONFIRMED bound is the distance of the located point, dk + 2 eps: the surface point itself
                # need not bound the volume -- a surface of another level may lie just in front of the real boundary)
                P["near"] = [(dk + 2 * eps_at(pos), an.q(pos + (dk + 2 * eps_at(pos)) * uk)) for (dk, uk, _lev, _st) in near]
        # logical point after the operation
        if ph == "I":
            P["logical"] = an.q(pos)
        elif ph == "Bm":
            if nrm is not None:
                P["logical"] = an.q(pos - eps_at(pos) * sgn(s_arr) * nrm)
            else:
                P["logical"] = an.q(pos - eps_at(pos) * ref)
        elif ph == "Bp":
            if nrm is not None and abs(s_ref) >= TAN:
                P["logical"] = an.q(pos + eps_at(pos) * sgn(s_ref) * nrm)
            else:
                P["logical"] = an.q(pos + eps_at(pos) * ref)
        P["ph"] = ph
        P["pos"] = pos.copy()
        P["dir"] = dirv.copy()
        plan.append(P)
    an.locate_all()
    probe_by_idx = {p[0]: p for p in probes}
    nfacts = {"T": 0, "F": 0, "U": 0}
    with open(outpath, "w") as fh:
        for idx, (r, P) in enumerate(zip(recs, plan)):
            e = r["e"]
            o = {"e": e}
            if e == "World":
                o["name"] = r["name"]
                o["union_boundary"] = bool(an.geo.has_union_boundary_daughter)
            elif e in ("Close", "Stuck", "Abort"):
                pass
            else:
                for k in ("failed", "b", "onb", "out", "vol", "kind", "h"):
                    if k in r:
                        o[k] = r[k]
                o["ph"] = P["ph"]
                lg = P.get("logical")
                lab = an.label(lg) if lg is not None else None
                kl = an.key(lg) if lg is not None else None
                if lab is None:
                    o["f_vol"] = "U"
                    o["f_out"] = "U"
                else:
                    o["f_out"] = tfu((lab == "<outside>") == bool(r["out"]))
                    o["f_vol"] = "U" if (lab == "<outside>" or r["out"]) else tfu(lab == r["vol"])
                rp = np.array(r["rpos"], dtype=float)
                rd = np.array(r["rdir"], dtype=float)
                o["f_pos"] = tfu(bool(np.all(np.abs(rp - P["pos"]) <= REL * 10 * np.maximum(1.0, np.abs(rp)))
                                      and np.all(np.abs(rd - P["dir"]) <= 1e-12)))
                if e == "Init":
                    st = an.res[P["start"]]
                    o["start_valid"] = bool(st["valid"] and not st["outside"])
                if e in ("Find", "FindMax"):
                    d = r["d"]
                    # "tiny": a second surface within 100x the geometry tolerance of the track -- an edge /
                    # corner state, outside the property (the history is not judged beyond this point)
                    tiny = d is not None and 0 < d <= 1e-6 * max(1.0, float(np.max(np.abs(P["pos"]))))
                    o["dcls"] = "inf" if d is None else ("zero" if d == 0 else ("tiny" if tiny else ("pos" if d > 0 else "neg")))
                    o["pre_ph"] = P["pre_ph"]
                    if "rev_n" in P:
                        o["f_rev"] = tfu(P["rev_n"])
                    elif "rev_a" in P:
                        ka, kb = an.key(P["rev_a"]), an.key(P["rev_b"])
                        o["f_rev"] = "U" if ka is None or kb is None else tfu(ka != kb)
                    else:
                        o["f_rev"] = "F"
                    if "same" in P:
                        # the logical path BEFORE the call is the path the ray starts in
                        keys = [an.key(i) for i in P["same"]]
                        valid = [k for k in keys if k is not None]
                        if kl is None or len(valid) < 3:
                            o["f_same"] = "U"
                        else:
                            o["f_same"] = tfu(all(k == kl for k in valid))
                    else:
                        o["f_same"] = "U"
                    if "chg" in P:
                        ka, kb = an.key(P["chg"][0]), an.key(P["chg"][1])
                        o["f_change"] = "U" if ka is None or kb is None else tfu(ka != kb)
                        if o["f_change"] == "F":
                            # "no change across the reported boundary" is only decidable away from edges and
                            # grazing incidence: a chord shorter than 4 eps (clipped edge, tangent ray) hides
                            # between the two sample points
                            bp = P["pos"] + d * P["dir"]
                            na = an.geo.normal_at(bp, an.queries[P["chg"][0]])
                            if not na["valid"] or abs(float(np.dot(P["dir"], na["n"]))) < 1e-3:
                                o["f_change"] = "U"
                    else:
                        o["f_change"] = "U"
                    if e == "FindMax":
                        o["cmp"] = P.get("cmp", 9)
                        o["d_is"] = P.get("d_is", "unknown")
                if e == "SetDir":
                    o["f_dec"] = tfu(P.get("dec"))
                    k = P.get("dkind")
                    o["dx"] = 1 if k and k[0] == "x" else 0
                    o["dr"] = 1 if k and k[0] == "r" else 0
                    o["dt"] = 1 if k and k[1] else 0
                if e == "MoveI":
                    o["x_ok"] = P["x_ok"]
                    o["rem"] = P["rem"]
                if e == "MoveB":
                    o["legal"] = P["legal"]
                    o["edge"] = P.get("edge", False)
                if e == "MoveTo":
                    o["within"] = P["within"]
                if e in ("Safety", "SafetyMax"):
                    s = P["s"]
                    o["sfin"] = bool(s is not None)
                    o["centre"] = P["centre"]
                    o["sneg"] = bool(s is not None and s < 0)
                    pr = probe_by_idx.get(idx)
                    rays = pr[3] if pr else []
                    o["nrays"] = len(rays)
                    o["rays_ok"] = bool(s is None or all(d >= s * (1 - REL) for (_u, d) in rays))
                    if "sphere" in P:
                        k0 = an.key(P["sphere0"])
                        ks = [an.key(i) for i in P["sphere"]]
                        valid = [k for k in ks if k is not None]
                        o["sphere_ok"] = "U" if (k0 is None or not valid) else tfu(all(k == k0 for k in valid))
                        o["nsphere"] = len(valid)
                    else:
                        o["sphere_ok"] = "U"
                        o["nsphere"] = 0
                    o["spos"] = bool(s is not None and s > 0)
                    bounds = []
                    if "near" in P:
                        k0 = an.key(P["sphere0"])
                        for dk, qi in P["near"]:
                            kq = an.key(qi)
                            if k0 is not None and kq is not None and kq != k0:
                                bounds.append(dk)
                    o["nnear"] = len(bounds)
                    o["near_ok"] = bool(s is None or all(s <= dk * (1 + REL) + 1e-12 for dk in bounds))
                for k in ("f_vol", "f_out", "f_same", "f_change", "f_rev", "sphere_ok", "f_dec"):
                    if k in o:
                        nfacts[o[k]] = nfacts.get(o[k], 0) + 1
            fh.write(json.dumps(o, separators=(",", ":")) + "\n")
    return {"records": len(recs), "queries": len(an.queries), "discarded": an.discarded, "facts": nfacts,
            "normals": an.normals,
            "union_boundary": bool(an.geo.has_union_boundary_daughter)}


def plan(geofile, seed, n, outpath):
    geo = oracle_geo.OracleGeo(geofile)
    rng = np.random.default_rng(seed)
    bb = geo.world_bbox
    out = []
    if bb is None or n <= 0:
        json.dump(out, open(outpath, "w"))
        return {"points": 0}
    lo, hi = np.array(bb[0], float), np.array(bb[1], float)
    if not (np.all(np.isfinite(lo)) and np.all(np.isfinite(hi))) or np.any(hi - lo > 1e8):
        json.dump(out, open(outpath, "w"))
        return {"points": 0}
    tries = 0
    curved_first = lambda st: 0 if st in ("kx", "ky", "kz", "sq", "gq") else (1 if st not in ("px", "py", "pz", "p", "grid") else 2)
    while len(out) < n and tries < 40 * n:
        tries += 1
        p0 = lo + (hi - lo) * rng.uniform(0.02, 0.98, size=3)
        r0 = geo.locate(p0[None, :])[0]
        if not r0["valid"] or r0["outside"]:
            continue
        near = geo.nearest_dirs(p0)[:6]
        if not near:
            continue
        near.sort(key=lambda c: (curved_first(c[3]), c[0]))
        dk, uk, _lev, _st = near[int(rng.integers(0, min(3, len(near))))]
        back = min(dk * rng.uniform(0.05, 0.6), dk - 1e-3 * max(1.0, float(np.abs(p0).max())))
        if back <= 0:
            continue
        p = p0 + (dk - back) * uk
        r1 = geo.locate(p[None, :])[0]
        if not r1["valid"] or r1["outside"] or r1["path"] != r0["path"]:
            continue
        dirs = []
        for (d2, u2, _l, _s) in geo.nearest_dirs(p)[:4]:
            dirs.append([float(x) for x in u2])
            for _ in range(2):
                v = u2 + 0.08 * rng.normal(size=3)
                v /= np.linalg.norm(v)
                dirs.append([float(x) for x in v])
        out.append({"p": [float(x) for x in p], "dirs": dirs})
    # steering at the delicate case of detail::CalcSafetyDistance: points exactly at the centre of a sphere /
    # on the axis of a cylinder (the outward normal is undefined there)
    ncentre = 0
    for c in geo.centre_points(rng, nmax=6):
        rc = geo.locate(np.asarray(c, float)[None, :])[0]
        if not rc["valid"] or rc["outside"]:
            continue
        dirs = [[float(x) for x in u2] for (_d2, u2, _l, _s) in geo.nearest_dirs(c)[:4]]
        out.append({"p": [float(x) for x in c], "dirs": dirs, "centre": True})
        ncentre += 1
    json.dump(out, open(outpath, "w"))
    return {"points": len(out), "centre_points": ncentre}


if __name__ == "__main__":
    if sys.argv[1] == "plan":
        try:
            print(json.dumps(plan(sys.argv[2], int(sys.argv[3]), int(sys.argv[4]), sys.argv[5])))
        except oracle_geo.Unsupported as ex:
            json.dump([], open(sys.argv[5], "w"))
            print(json.dumps({"unsupported": str(ex)}))
        sys.exit(0)
    try:
        info = run(sys.argv[1], sys.argv[2], sys.argv[3])
    except oracle_geo.Unsupported as ex:
        print(json.dumps({"unsupported": str(ex)}))
        sys.exit(7)
    print(json.dumps(info))
