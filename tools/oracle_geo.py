#!/usr/bin/env python3
"""Independent numeric point locator ("oracle") for ORANGE geometry input files.

Written from the *definition* of the ``*.org.json`` format only (as read by
/repo/src/orange/OrangeInputIO.json.cc); it neither calls nor links celeritas.
Pure python + numpy (interpreter: python3-vt).

API
---
    geo = OracleGeo(path)              # raises Unsupported(reason)
    geo.universes                      # list of dict (type 'unit' | 'rectarray')
    geo.world_bbox                     # ((lo3),(hi3)) from universe 0 "bbox", or None
    geo.tol                            # {'rel','abs'} ("tol" key; default 1.5e-8 as in Tolerance::from_default)
    geo.length_scale                   # tol.abs / tol.rel
    geo.has_union_boundary_daughter    # see _union_boundary() below
    geo.locate(pts, guard=1e-6)        # -> list of dict(valid, why, path, outside, label, name[, detail])
    geo.locate_labels(pts, guard=1e-6) # -> (labels list[str|None], valid ndarray[bool], why list[str])

``path`` is [(universe_name, volume_label, local_volume_index), ...] from level 0 to the deepest
level reached.  ``volume_label`` / ``label`` is what the C++ code prints with
``to_string(OrangeParams::id_to_label(VolumeId))``: the JSON label string is
split at its LAST '@' into (name, ext); an empty ext is replaced by the
universe name (UnitInserter.cc make_volume_labels), printed "name@ext".  So
JSON "leaf1" in unit "global" is "leaf1@global", JSON "d1@bg" stays "d1@bg",
rect-array cells are "{i,j,k}@<array name>".  ``name`` is the part before '@'
(what the repository's unit tests compare via ``volume_name``).

Validity gate (``valid``/``why``): at every level
  * "near-surface": |f|/|grad f| < guard*max(1,|local coords|) for ANY surface
    of the unit (or any grid plane of an array);
  * every volume without the implicit flag (0x2) and not zorder B/x has its RPN
    logic evaluated (face token k is TRUE when the point is on the positive /
    "outside" side of surface faces[k]); exactly one true -> that volume;
    none -> the unit's background volume if it has one, else "gap";
    more than one -> "overlap" (never resolved by order; ``detail`` names two);
  * "daughter-exterior": local volume 0 of a non-global universe was selected;
  * "outside-array": point beyond the outer planes of a rect array grid.
For universe 0, local volume 0 selected -> outside=True (still valid).

CLI
---
    oracle_geo.py locate <file.org.json> <points.ndjson> <out.ndjson>
        in : {"id":..., "p":[x,y,z]}    out: {"id","valid","why","outside","label","name","path"}
    oracle_geo.py selftest
"""
import glob
import json
import os
import re
import sys
import time

import numpy as np


class Unsupported(Exception):
    """The file uses a feature this oracle deliberately does not implement."""


SURF_SIZE = {"px": 1, "py": 1, "pz": 1, "p": 4, "cxc": 1, "cyc": 1, "czc": 1,
             "cx": 3, "cy": 3, "cz": 3, "sc": 1, "s": 4, "kx": 4, "ky": 4,
             "kz": 4, "sq": 7, "gq": 10}
_AX = {"x": 0, "y": 1, "z": 2}
# Integer z-orders of old SCALE exports -> character codes (OrangeTypes.cc)
_ZINT = {1: "B", 2: "M", 3: "A", 4: "H", 65534: "x", 65533: "X",
         2**32 - 2: "x", 2**32 - 1: "X", 2**64 - 2: "x", 2**64 - 1: "X"}
_TINY = 1e-300


def _uv(t):
    """The two axes other than t, in increasing order (U, V in the C++)."""
    return [a for a in (0, 1, 2) if a != t]


def surf_eval(st, d, P):
    """Quadric value f(P) and |grad f|(P) for one surface; P is (N,3)."""
    x, y, z = P[:, 0], P[:, 1], P[:, 2]
    if st in ("px", "py", "pz"):           # x_T - position
        return P[:, _AX[st[1]]] - d[0], np.ones(len(P))
    if st == "p":                          # n.x - d
        n = np.asarray(d[:3])
        return P @ n - d[3], np.full(len(P), np.linalg.norm(n))
    if st in ("cxc", "cyc", "czc"):        # u^2 + v^2 - R^2
        u, v = (P[:, a] for a in _uv(_AX[st[1]]))
        r2 = u * u + v * v
        return r2 - d[0], 2 * np.sqrt(r2)
    if st in ("cx", "cy", "cz"):           # (u-u0)^2 + (v-v0)^2 - R^2
        a, b = _uv(_AX[st[1]])
        u, v = P[:, a] - d[0], P[:, b] - d[1]
        r2 = u * u + v * v
        return r2 - d[2], 2 * np.sqrt(r2)
    if st == "sc":                         # |x|^2 - R^2
        r2 = x * x + y * y + z * z
        return r2 - d[0], 2 * np.sqrt(r2)
    if st == "s":                          # |x - o|^2 - R^2
        q = P - np.asarray(d[:3])
        r2 = np.einsum("ij,ij->i", q, q)
        return r2 - d[3], 2 * np.sqrt(r2)
    if st in ("kx", "ky", "kz"):           # u^2 + v^2 - t^2 (x_T - o_T)^2
        t = _AX[st[1]]
        a, b = _uv(t)
        w, u, v = P[:, t] - d[t], P[:, a] - d[a], P[:, b] - d[b]
        return u * u + v * v - d[3] * w * w, \
            2 * np.sqrt(u * u + v * v + (d[3] * w) ** 2)
    if st == "sq":                         # a x^2+b y^2+c z^2+d x+e y+f z+g
        s2, s1 = np.asarray(d[:3]), np.asarray(d[3:6])
        f = (P * P) @ s2 + P @ s1 + d[6]
        return f, np.linalg.norm(2 * P * s2 + s1, axis=1)
    if st == "gq":     # ax2+by2+cz2 + dxy+eyz+fzx + gx+hy+iz + j
        a, b, c, dd, e, ff, g, h, i, j = d
        f = (a * x + dd * y + ff * z + g) * x + (b * y + e * z + h) * y \
            + (c * z + i) * z + j
        gx = 2 * a * x + dd * y + ff * z + g
        gy = 2 * b * y + dd * x + e * z + h
        gz = 2 * c * z + e * y + ff * x + i
        return f, np.sqrt(gx * gx + gy * gy + gz * gz)
    raise Unsupported("surface type '%s'" % st)


_TOK = re.compile(r"\d+|[*|&~]")


def parse_logic(s):
    """RPN logic string -> list of int (face index) or one of '*|&~'."""
    if re.sub(r"[\d*|&~ ]", "", s):
        raise Unsupported("logic token in '%s'" % s)
    return [int(t) if t.isdigit() else t for t in _TOK.findall(s)]


def eval_logic(tokens, sense):
    """Evaluate RPN logic; sense(k) -> bool array for face k (True=outside)."""
    st = []
    for t in tokens:
        if isinstance(t, int):
            st.append(sense(t))
        elif t == "*":
            st.append(True)
        elif t == "~":
            st.append(np.logical_not(st.pop()))
        else:
            b, a = st.pop(), st.pop()
            st.append(np.logical_and(a, b) if t == "&" else np.logical_or(a, b))
    if len(st) != 1:
        raise ValueError("unbalanced logic %r" % (tokens,))
    return st[0]


def logic_has_union(tokens):
    """True if the region is not a plain intersection of half-spaces: after
    pushing negations to the leaves and folding the constant '*', some OR node
    with >= 2 non-constant operands remains."""
    st = []
    for t in tokens:
        if isinstance(t, int):
            st.append(("lit", t))
        elif t == "*":
            st.append(("const", True))
        elif t == "~":
            st.append(("not", st.pop()))
        else:
            b, a = st.pop(), st.pop()
            st.append(("and" if t == "&" else "or", a, b))

    def nnf(n, neg):    # -> (True | False | 'x' (non-constant), has_union)
        k = n[0]
        if k == "lit":
            return "x", False
        if k == "const":
            return n[1] != neg, False
        if k == "not":
            return nnf(n[1], not neg)
        is_or = (k == "or") != neg            # De Morgan under negation
        (va, ua), (vb, ub) = nnf(n[1], neg), nnf(n[2], neg)
        absorbing = is_or                     # OR absorbs True, AND absorbs False
        if va is absorbing or vb is absorbing:
            return absorbing, False
        if va == "x" and vb == "x":
            return "x", ua or ub or is_or
        if va == "x" or vb == "x":            # other operand is the identity
            return "x", ua or ub
        return (not absorbing), False

    return nnf(st[0], False)[1]


def _canon_label(raw, uname):
    """JSON label string -> (C++ printed label, Label.name)."""
    pos = raw.rfind("@")
    name, ext = (raw, "") if pos < 0 else (raw[:pos], raw[pos + 1:])
    ext = ext or uname
    return (name + "@" + ext if ext else name), name


def _transform(t):
    """Daughter-to-parent transform -> (R (3,3) or None, t (3,))."""
    t = list(t)
    if len(t) == 0:
        return None, np.zeros(3)
    if len(t) == 3:
        return None, np.asarray(t, float)
    if len(t) == 12:       # row-major rotation then translation
        return np.asarray(t[:9], float).reshape(3, 3), np.asarray(t[9:], float)
    raise Unsupported("transform with %d elements" % len(t))


class OracleGeo:
    def __init__(self, path):
        with open(path) as f:
            j = json.load(f)
        if j.get("_format") not in ("orange", "ORANGE", "SCALE ORANGE"):
            raise Unsupported("format %r" % j.get("_format"))
        self.path = path
        tol = j.get("tol") or {"rel": 1.5e-8, "abs": 1.5e-8}
        self.tol = {"rel": float(tol["rel"]), "abs": float(tol["abs"])}
        self.length_scale = self.tol["abs"] / self.tol["rel"]
        self.universes = [self._read_universe(u) for u in j["universes"]]
        bb = self.universes[0].get("bbox")
        self.world_bbox = (tuple(bb[0]), tuple(bb[1])) if bb else None
        self.has_union_boundary_daughter = self._union_boundary()

    # ---------------------------------------------------------------- reading
    def _read_universe(self, u):
        ut = u["_type"]
        name = u["md"]["name"]
        if ut in ("rectarray", "rectangular array"):
            return self._read_array(u, name)
        if ut not in ("unit", "simple unit"):
            raise Unsupported("universe type '%s'" % ut)
        sj = u["surfaces"]
        surfaces, k = [], 0
        for st, n in zip(sj["types"], sj["sizes"]):
            if st == "inv":
                raise Unsupported("involute surface ('inv') in unit '%s'" % name)
            if SURF_SIZE.get(st) != n:
                raise Unsupported("surface type '%s' size %d" % (st, n))
            surfaces.append((st, [float(x) for x in sj["data"][k:k + n]]))
            k += n
        vj = u.get("volumes", u.get("cells"))
        labels = u.get("volume_labels", u.get("cell_names")) or \
            [v.get("label", "") for v in vj]
        vols = []
        for v, raw in zip(vj, labels):
            zo = v.get("zorder", "M")
            zo = _ZINT.get(zo, "!") if isinstance(zo, int) else zo
            if zo not in "BMAHxX" or len(zo) != 1:
                raise Unsupported("zorder %r" % (v.get("zorder"),))
            flags = int(v.get("flags", 0))
            # Reader: background volumes get "nowhere" logic whatever is written
            logic = ["*", "~"] if zo == "B" else parse_logic(v["logic"])
            label, lname = _canon_label(raw, name)
            faces = [int(f) for f in v["faces"]]
            if any(isinstance(t, int) and t >= len(faces) for t in logic):
                raise ValueError("logic of '%s' indexes past its faces" % label)
            vols.append(dict(label=label, name=lname, raw=raw, faces=faces,
                             logic=logic, flags=flags, zorder=zo,
                             implicit=bool(flags & 2) or zo in "Bx",
                             daughter=None))
        # UnitInserter: the background is the LAST volume iff its zorder is B
        bg = len(vols) - 1 if vols and vols[-1]["zorder"] == "B" else None
        pk = next((k for k in ("parent_volumes", "parent_cells") if k in u), None)
        if pk:
            if "transforms" in u:
                trs = [_transform(t) for t in u["transforms"]]
            else:
                fl = u["translations"]
                trs = [_transform(fl[3 * i:3 * i + 3]) for i in range(len(u[pk]))]
            for pv, d, tr in zip(u[pk], u["daughters"], trs):
                vols[pv]["daughter"] = (int(d),) + tr
        return dict(type="unit", name=name, surfaces=surfaces, volumes=vols,
                    background=bg, bbox=u.get("bbox"))

    def _read_array(self, u, name):
        if "transforms" in u:
            raise Unsupported("rect array with 'transforms'")
        grid = [np.asarray(u[a], float) for a in "xyz"]
        dims = [len(g) - 1 for g in grid]
        d, fl = u["daughters"], u["translations"]
        parents = u.get("parent_cells") or list(range(len(d)))
        ncell = dims[0] * dims[1] * dims[2]
        if len(d) != ncell or 3 * len(d) != len(fl):
            raise ValueError("rect array '%s': bad daughter count" % name)
        daughters = [None] * ncell
        for i, p in enumerate(parents):
            daughters[p] = (int(d[i]), None, np.asarray(fl[3 * i:3 * i + 3], float))
        return dict(type="rectarray", name=name, grid=grid, dims=dims,
                    daughters=daughters, bbox=None)

    def _union_boundary(self):
        """Feature detector for F-NAV-2.  In the JSON a daughter's own exterior
        (local volume 0, '[EXTERIOR]', flags 2) is always the implicit '* ~', so
        the daughter's boundary is *defined by the parent volume that holds it*.
        True iff, for some daughter placement, that parent volume's logic (or the
        daughter's explicit volume-0 logic, should one exist) is not a plain
        intersection of half-spaces (see logic_has_union)."""
        for u in self.universes:
            for v in u.get("volumes", []):
                if v["daughter"] is None:
                    continue
                if logic_has_union(v["logic"]):
                    return True
                du = self.universes[v["daughter"][0]]
                if du["type"] == "unit" and logic_has_union(du["volumes"][0]["logic"]):
                    return True
        return False

    # --------------------------------------------------------------- locating
    def locate(self, pts, guard=1e-6):
        P = np.atleast_2d(np.asarray(pts, float))
        n = len(P)
        r = dict(valid=np.ones(n, bool), outside=np.zeros(n, bool),
                 why=[""] * n, detail=[None] * n, path=[[] for _ in range(n)],
                 name=[None] * n, guard=guard)
        self._descend(0, np.arange(n), P, r, 0)
        out = []
        for i in range(n):
            d = dict(valid=bool(r["valid"][i]), why=r["why"][i],
                     path=r["path"][i], outside=bool(r["outside"][i]),
                     label=r["path"][i][-1][1] if r["path"][i] else None,
                     name=r["name"][i])
            if r["detail"][i]:
                d["detail"] = r["detail"][i]
            out.append(d)
        return out

    # ------------------------------------------------- surface normal at a point
    def normal_at(self, p, side, guard=1e-6, edge_rel=2e-4):
        """True unit normal (GLOBAL frame) of the surface the point p lies on.

        `side` is a nearby point strictly inside a volume adjacent to that surface (it selects
        the chain of daughter universes to descend).  At every level of that chain every surface
        of the unit (every grid plane of an array) is evaluated at the point LOCAL to that level;
        the surface with the smallest |f|/|grad f| is the one p is on; its gradient (central
        differences of the quadric value, so independent of any hand-written normal formula) is
        rotated up to the global frame with the daughter-to-parent matrices of the chain.
        Returns dict(valid, n, dist, level, why).  Invalid when p is not within 1e-5 (relative) of
        any surface, or when a second, non-parallel surface is also within edge_rel (edge/corner),
        or when `side` cannot be located."""
        P = np.asarray(p, float).copy()
        S = np.asarray(side, float).copy()
        Rup = np.eye(3)
        uid, level = 0, 0
        cands = []
        while True:
            u = self.universes[uid]
            scale = max(1.0, float(np.abs(P).max()))
            if u["type"] == "rectarray":
                cell = []
                for ax, g in enumerate(u["grid"]):
                    e = np.zeros(3)
                    e[ax] = 1.0
                    for gv in g[1:-1]:
                        cands.append((abs(P[ax] - gv) / scale, Rup @ e, level))
                    if S[ax] <= g[0] or S[ax] >= g[-1]:
                        return dict(valid=False, why="side-outside-array")
                    cell.append(int(np.clip(np.searchsorted(g, S[ax], side="right") - 1, 0, len(g) - 2)))
                nx, ny, nz = u["dims"]
                daughter = u["daughters"][(cell[0] * ny + cell[1]) * nz + cell[2]]
            else:
                for st, d in u["surfaces"]:
                    f, g = surf_eval(st, d, P[None, :])
                    h = 1e-4 * scale
                    grad = np.zeros(3)
                    for ax in range(3):
                        dp = np.zeros(3)
                        dp[ax] = h
                        grad[ax] = (surf_eval(st, d, (P + dp)[None, :])[0][0]
                                    - surf_eval(st, d, (P - dp)[None, :])[0][0]) / (2 * h)
                    gn = np.linalg.norm(grad)
                    if gn < _TINY:
                        continue
                    cands.append((abs(f[0]) / max(g[0], _TINY) / scale, Rup @ (grad / gn), level))
                r = dict(valid=np.ones(1, bool), outside=np.zeros(1, bool), why=[""], detail=[None],
                         path=[[]], name=[None], guard=guard)
                gabs = guard * np.maximum(1.0, np.abs(S[None, :]).max(axis=1))
                groups = self._unit_volumes(uid, u, np.arange(1), S[None, :], gabs, r)
                if not r["valid"][0] or not groups:
                    return dict(valid=False, why="side-" + (r["why"][0] or "unlocated"))
                daughter = groups[0][3]
            if daughter is None:
                break
            d_uid, R, t = daughter
            P = P - t
            S = S - t
            if R is not None:
                P = P @ R
                S = S @ R
                Rup = Rup @ R
            uid = d_uid
            level += 1
            if level > 64:
                return dict(valid=False, why="too-deep")
        if not cands:
            return dict(valid=False, why="no-surface")
        cands.sort(key=lambda c: c[0])
        best = cands[0]
        if best[0] > 1e-5:
            return dict(valid=False, why="not-on-surface", dist=best[0])
        for c in cands[1:]:
            if c[0] > edge_rel:
                break
            if abs(float(np.dot(c[1], best[1]))) < 1 - 1e-6:
                return dict(valid=False, why="edge", dist=best[0])
        return dict(valid=True, n=best[1] / np.linalg.norm(best[1]), dist=best[0], level=best[2], why="")

    # --------------------------------------- nearest points of the surrounding surfaces
    @staticmethod
    def _grad(st, d, x, h):
        g = np.zeros(3)
        for ax in range(3):
            dp = np.zeros(3)
            dp[ax] = h
            g[ax] = (surf_eval(st, d, (x + dp)[None, :])[0][0] - surf_eval(st, d, (x - dp)[None, :])[0][0]) / (2 * h)
        return g

    def _closest_on_surface(self, st, d, P):
        """A point of {f = 0} close to P (ideally the closest): alternate Newton steps onto the
        surface with damped tangential slides towards P.  Whatever it converges to, the result is
        ON the surface (|f|/|grad f| < 1e-9 relative, else None), so |x - P| is a true UPPER bound
        of the distance from P to that surface."""
        scale = max(1.0, float(np.abs(P).max()))
        h = 1e-5 * scale
        best = None
        starts = [P]
        g0 = self._grad(st, d, P, h)
        n0 = np.linalg.norm(g0)
        if n0 > _TINY:
            f0 = surf_eval(st, d, P[None, :])[0][0]
            starts.append(P - (f0 / (n0 * n0)) * g0)
        for x0 in starts:
            x = np.array(x0, float)
            ok = True
            for _ in range(80):
                f = surf_eval(st, d, x[None, :])[0][0]
                g = self._grad(st, d, x, h)
                gn2 = float(g @ g)
                if gn2 < _TINY or not np.all(np.isfinite(x)):
                    ok = False
                    break
                x = x - (f / gn2) * g
                g = self._grad(st, d, x, h)
                gn = np.linalg.norm(g)
                if gn < _TINY:
                    ok = False
                    break
                gh = g / gn
                v = P - x
                vt = v - (v @ gh) * gh
                if np.linalg.norm(vt) < 1e-10 * scale:
                    break
                x = x + 0.7 * vt
            if not ok:
                continue
            for _ in range(6):
                f = surf_eval(st, d, x[None, :])[0][0]
                g = self._grad(st, d, x, h)
                gn2 = float(g @ g)
                if gn2 < _TINY:
                    break
                x = x - (f / gn2) * g
            f, gm = surf_eval(st, d, x[None, :])
            if not np.all(np.isfinite(x)) or abs(f[0]) / max(gm[0], _TINY) > 1e-9 * scale:
                continue
            dist = float(np.linalg.norm(x - P))
            if best is None or dist < best[0]:
                best = (dist, x)
        return best

    def nearest_dirs(self, p, guard=1e-6, kmax=5):
        """For an interior point p: for every surface of every unit on p's chain of universes, a point
        of that surface near p (see _closest_on_surface) as (distance, unit direction in the GLOBAL
        frame, level, surface type), sorted by distance.  Each distance is an upper bound of the
        distance from p to that surface; whether the surface actually bounds p's volume there is
        decided by point location of points along that direction (done by the caller)."""
        P = np.asarray(p, float).copy()
        Rup = np.eye(3)
        uid, level = 0, 0
        out = []
        while True:
            u = self.universes[uid]
            if u["type"] == "rectarray":
                cell = []
                for ax, g in enumerate(u["grid"]):
                    e = np.zeros(3)
                    e[ax] = 1.0
                    for gv in g[1:-1]:
                        if abs(gv - P[ax]) > 0:
                            out.append((abs(gv - P[ax]), Rup @ (e * np.sign(gv - P[ax])), level, "grid"))
                    if P[ax] <= g[0] or P[ax] >= g[-1]:
                        return sorted(out, key=lambda c: c[0])
                    cell.append(int(np.clip(np.searchsorted(g, P[ax], side="right") - 1, 0, len(g) - 2)))
                nx, ny, nz = u["dims"]
                daughter = u["daughters"][(cell[0] * ny + cell[1]) * nz + cell[2]]
            else:
                # only the kmax surfaces nearest by the first-order estimate |f|/|grad f| are refined
                est = []
                for si, (st, d) in enumerate(u["surfaces"]):
                    f, g = surf_eval(st, d, P[None, :])
                    est.append((abs(f[0]) / max(g[0], _TINY), si))
                for _e, si in sorted(est)[:kmax]:
                    st, d = u["surfaces"][si]
                    c = self._closest_on_surface(st, d, P)
                    if c is not None and c[0] > 0:
                        out.append((c[0], Rup @ ((c[1] - P) / c[0]), level, st))
                r = dict(valid=np.ones(1, bool), outside=np.zeros(1, bool), why=[""], detail=[None],
                         path=[[]], name=[None], guard=guard)
                gabs = guard * np.maximum(1.0, np.abs(P[None, :]).max(axis=1))
                groups = self._unit_volumes(uid, u, np.arange(1), P[None, :], gabs, r)
                if not r["valid"][0] or not groups:
                    break
                daughter = groups[0][3]
            if daughter is None:
                break
            d_uid, R, t = daughter
            P = P - t
            if R is not None:
                P = P @ R
                Rup = Rup @ R
            uid = d_uid
            level += 1
            if level > 64:
                break
        return sorted(out, key=lambda c: c[0])

    # ------------------------------------------ centres / axes of spheres and cylinders
    def zero_gradient_face(self, p, guard=1e-6):
        """True iff, at some level of p's chain of universes, a sphere or cylinder that is a FACE of the
        volume containing p has an exactly vanishing gradient at the local point (p is the centre of the
        sphere / lies on the axis of the cylinder): the outward normal is undefined there."""
        P = np.asarray(p, float).copy()
        uid, level = 0, 0
        while level <= 64:
            u = self.universes[uid]
            if u["type"] == "rectarray":
                cell = []
                for ax, g in enumerate(u["grid"]):
                    if P[ax] <= g[0] or P[ax] >= g[-1]:
                        return False
                    cell.append(int(np.clip(np.searchsorted(g, P[ax], side="right") - 1, 0, len(g) - 2)))
                nx, ny, nz = u["dims"]
                daughter = u["daughters"][(cell[0] * ny + cell[1]) * nz + cell[2]]
            else:
                r = dict(valid=np.ones(1, bool), outside=np.zeros(1, bool), why=[""], detail=[None],
                         path=[[]], name=[None], guard=guard)
                gabs = guard * np.maximum(1.0, np.abs(P[None, :]).max(axis=1))
                groups = self._unit_volumes(uid, u, np.arange(1), P[None, :], gabs, r)
                if not r["valid"][0] or not groups:
                    return False
                li = int(groups[0][4])
                for fi in u["volumes"][li]["faces"]:
                    st, d = u["surfaces"][fi]
                    if st in ("s", "sc", "cx", "cy", "cz", "cxc", "cyc", "czc"):
                        if surf_eval(st, d, P[None, :])[1][0] == 0.0:
                            return True
                daughter = groups[0][3]
            if daughter is None:
                return False
            d_uid, R, t = daughter
            P = P - t
            if R is not None:
                P = P @ R
            uid = d_uid
            level += 1
        return False

    def centre_points(self, rng, nmax=12, per_cyl=2):
        """Global points exactly at the centres of spheres / on the axes of cylinders of the placed units
        (universe tree walked from the global universe, at most 60 placements), for safety probes."""
        out = []
        todo = [(0, np.eye(3), np.zeros(3), 0)]
        seen = 0
        bb = self.world_bbox
        span = 1.0
        if bb is not None:
            span = float(np.max(np.abs(np.asarray(bb, float)))) if np.all(np.isfinite(np.asarray(bb, float))) else 1.0
        while todo and seen < 60:
            uid, Rup, tup, level = todo.pop(0)
            seen += 1
            u = self.universes[uid]
            if u["type"] == "rectarray":
                for dd in u["daughters"][:8]:
                    if dd is not None and level < 4:
                        d_uid, R, t = dd
                        todo.append((d_uid, Rup if R is None else Rup @ R, Rup @ t + tup, level + 1))
                continue
            for st, d in u["surfaces"]:
                loc = []
                if st == "sc":
                    loc.append(np.zeros(3))
                elif st == "s":
                    loc.append(np.asarray(d[:3], float))
                elif st in ("cxc", "cyc", "czc", "cx", "cy", "cz"):
                    ax = _AX[st[1]]
                    a, b = _uv(ax)
                    for _ in range(per_cyl):
                        q = np.zeros(3)
                        if len(d) == 3:
                            q[a], q[b] = d[0], d[1]
                        # an exactly representable coordinate along the axis
                        q[ax] = float(np.round(rng.uniform(-1, 1) * min(span, 50.0) * 8) / 8)
                        loc.append(q)
                    q0 = np.zeros(3)
                    if len(d) == 3:
                        q0[a], q0[b] = d[0], d[1]
                    loc.append(q0)
                for q in loc:
                    out.append(Rup @ q + tup)
            for v in u["volumes"]:
                if v["daughter"] is not None and level < 4:
                    d_uid, R, t = v["daughter"]
                    todo.append((d_uid, Rup if R is None else Rup @ R, Rup @ t + tup, level + 1))
        if len(out) > nmax:
            idx = rng.permutation(len(out))[:nmax]
            out = [out[i] for i in idx]
        return out

    def locate_labels(self, pts, guard=1e-6):
        """Deepest C++-style label per point (None where invalid)."""
        res = self.locate(pts, guard)
        valid = np.array([d["valid"] for d in res], bool)
        return ([d["label"] if d["valid"] else None for d in res], valid,
                [d["why"] for d in res])

    @staticmethod
    def _fail(r, idx, why, detail=None):
        r["valid"][idx] = False
        for i in idx:
            r["why"][i] = why
            if detail is not None:
                r["detail"][i] = detail

    def _descend(self, uid, idx, P, r, level):
        """idx: global point indices; P: their coordinates local to uid."""
        if len(idx) == 0:
            return
        if level > 64:
            raise ValueError("universe recursion too deep (cycle?)")
        u = self.universes[uid]
        gabs = r["guard"] * np.maximum(1.0, np.abs(P).max(axis=1))
        if u["type"] == "rectarray":
            groups = self._array_cells(u, idx, P, gabs, r)
        else:
            groups = self._unit_volumes(uid, u, idx, P, gabs, r)
        for sel, label, name, daughter, li in groups:
            for i in idx[sel]:
                # third element: local volume index (two volumes of one universe may carry the
                # same label, e.g. the same daughter placed twice)
                r["path"][i].append((u["name"], label, int(li)))
                r["name"][i] = name
            if daughter is not None:
                d_uid, R, t = daughter
                Q = P[sel] - t                 # x_daughter = R^T (x_parent - t)
                if R is not None:
                    Q = Q @ R                  # row-vector form of R^T q
                self._descend(d_uid, idx[sel], Q, r, level + 1)

    def _unit_volumes(self, uid, u, idx, P, gabs, r):
        n = len(idx)
        sense, near = [], np.zeros(n, bool)
        for st, d in u["surfaces"]:
            f, g = surf_eval(st, d, P)
            near |= np.abs(f) < gabs * np.maximum(g, _TINY)
            sense.append(f > 0)
        count = np.zeros(n, int)
        which = np.full(n, -1)
        prev = np.full(n, -1)
        for li, v in enumerate(u["volumes"]):
            if v["implicit"]:
                continue
            faces = v["faces"]
            inside = eval_logic(v["logic"], lambda k: sense[faces[k]])
            inside = np.broadcast_to(np.asarray(inside, bool), (n,))
            count += inside
            prev = np.where(inside, which, prev)
            which = np.where(inside, li, which)
        ok = ~near
        self._fail(r, idx[near], "near-surface")
        over = ok & (count > 1)
        for i in np.nonzero(over)[0]:
            vv = u["volumes"]
            self._fail(r, idx[i:i + 1], "overlap",
                       "%s|%s" % (vv[prev[i]]["label"], vv[which[i]]["label"]))
        none = ok & (count == 0)
        if u["background"] is not None:
            which = np.where(none, u["background"], which)
        else:
            self._fail(r, idx[none], "gap")
            ok &= ~none
        ok &= ~over
        groups = []
        for li in np.unique(which[ok]):
            sel = np.nonzero(ok & (which == li))[0]
            v = u["volumes"][li]
            if li == 0:
                if uid == 0:
                    r["outside"][idx[sel]] = True
                else:
                    self._fail(r, idx[sel], "daughter-exterior")
                groups.append((sel, v["label"], v["name"], None, li))
                continue
            groups.append((sel, v["label"], v["name"], v["daughter"], li))
        return groups

    def _array_cells(self, u, idx, P, gabs, r):
        n = len(idx)
        near, out = np.zeros(n, bool), np.zeros(n, bool)
        ijk = []
        for ax, g in enumerate(u["grid"]):
            x = P[:, ax]
            near |= np.abs(x[:, None] - g[None, :]).min(axis=1) < gabs
            out |= (x < g[0]) | (x > g[-1])
            ijk.append(np.clip(np.searchsorted(g, x, side="right") - 1,
                               0, len(g) - 2))
        self._fail(r, idx[near], "near-surface")
        self._fail(r, idx[out & ~near], "outside-array")
        ok = ~(near | out)
        nx, ny, nz = u["dims"]
        cell = (ijk[0] * ny + ijk[1]) * nz + ijk[2]        # z fastest
        groups = []
        for c in np.unique(cell[ok]):
            sel = np.nonzero(ok & (cell == c))[0]
            i, rem = divmod(int(c), ny * nz)
            jj, k = divmod(rem, nz)
            name = "{%d,%d,%d}" % (i, jj, k)
            groups.append((sel, name + "@" + u["name"], name, u["daughters"][c], c))
        return groups


# ========================================================================= CLI
def cli_locate(geofile, infile, outfile):
    geo = OracleGeo(geofile)
    ids, pts = [], []
    with open(infile) as f:
        for line in f:
            if line.strip():
                rec = json.loads(line)
                ids.append(rec["id"])
                pts.append(rec["p"])
    res = geo.locate(np.asarray(pts, float).reshape(-1, 3)) if pts else []
    with open(outfile, "w") as f:
        for i, d in zip(ids, res):
            d = dict(d, id=i, path=[list(p) for p in d["path"]])
            f.write(json.dumps(d) + "\n")
    return 0


OD, GD = "/repo/test/orange/data/", "/repo/test/geocel/data/"
# (file, point, expected Label.name or '!why', provenance)
EXPECT = [
    (GD + "two-boxes", (3.8085385437789383, 0, 0), "inner", "FieldPropagator.test.cc:184"),
    (GD + "two-boxes", (9.5, 9.5, 9.5), "world", "FieldPropagator.test.cc:459"),
    (GD + "two-boxes", (0, 0, 0), "inner", "FieldPropagator.test.cc:308"),
    (OD + "five-volumes", (1000, 1000, -1000), "[EXTERIOR]", "SimpleUnitTracker.test.cc:790"),
    (OD + "five-volumes", (-.25, -.25, 0), "e", "SimpleUnitTracker.test.cc:797"),
    (OD + "five-volumes", (-.7, .7, 0), "a", "SimpleUnitTracker.test.cc:804"),
    (OD + "five-volumes", (.75, .2, 0), "d", "SimpleUnitTracker.test.cc:811"),
    (OD + "five-volumes", (0, .75, 0), "!near-surface", "SimpleUnitTracker.test.cc:819 (init fails)"),
    (OD + "field-layers", (0, 50, 0), "[EXTERIOR]", "SimpleUnitTracker.test.cc:670"),
    (OD + "field-layers", (0, -3, 0), "world.bg", "SimpleUnitTracker.test.cc:675"),
    (OD + "field-layers", (0, -2.4, 0), "layer1", "SimpleUnitTracker.test.cc:681"),
    (OD + "universes", (-1, -2, 1), "johnny", "OrangeJson.test.cc:170"),
    (OD + "universes", (0.625, -2, 1), "c", "OrangeJson.test.cc:178"),
    (OD + "universes", (2, 1, 1), "bobby", "OrangeJson.test.cc:301"),
    (OD + "universes", (2, -2, 0.7), "a", "OrangeJson.test.cc:416"),
    (OD + "universes", (0.25, -3.7, 0.7), "!overlap", "OrangeJson.test.cc:446 expects patty; c also true"),
    (OD + "rect-array", (-1, 1, -1), "Hfill", "OrangeJson.test.cc:496"),
    (OD + "nested-rect-arrays", (1.5, 0.5, 0.5), "Afill", "OrangeJson.test.cc:516"),
    (OD + "nested-rect-arrays", (3.5, 1.5, 0.5), "Bfill", "OrangeJson.test.cc:543"),
    (OD + "nested-rect-arrays", (4.5, 1.5, 0.5), "interior", "OrangeJson.test.cc:560 (track)"),
    (GD + "simple-cms", (0, 0, 0), "vacuum_tube", "LinearPropagator.test.cc:74"),
    (GD + "simple-cms", (-75, 0, 0), "si_tracker", "OrangeGeant.test.cc:173"),
    (GD + "simple-cms", (150, 0, 0), "em_calorimeter", "OrangeGeant.test.cc:173 (track mid)"),
    (GD + "simple-cms", (325, 0, 0), "sc_solenoid", "OrangeGeant.test.cc:173 (track mid)"),
    (GD + "simple-cms", (25, 0, 701), "world", "OrangeGeant.test.cc:191"),
    (GD + "three-spheres", (0, 0, 0.5), "inner", "definition (radii 1,3,6,100)"),
    (GD + "three-spheres", (0, 2, 0), "middle", "definition"),
    (GD + "three-spheres", (4, 0, 0), "outer", "definition"),
    (GD + "three-spheres", (0, 0, 150), "[EXTERIOR]", "definition"),
    (OD + "testem3", (19.99, 19.9, 19.9), "absorber", "OrangeJson.test.cc:655 (safety .01 to x=20)"),
    (OD + "testem3", (19.42, 19.9, 19.9), "gap", "OrangeJson.test.cc:659 (safety .01 to x=19.43)"),
    (OD + "inputbuilder-globalspheres", (0, 0, 2.5), "inner", "OrangeJson.test.cc globalspheres"),
    (OD + "inputbuilder-globalspheres", (0, 0, 7.5), "shell", "OrangeJson.test.cc globalspheres"),
    (OD + "inputbuilder-bgspheres", (0, 0, -9), "global", "OrangeJson.test.cc bgspheres"),
    (OD + "inputbuilder-bgspheres", (0, 0, -3), "bottom", "OrangeJson.test.cc bgspheres"),
    (OD + "inputbuilder-bgspheres", (0, 0, 3), "top", "OrangeJson.test.cc bgspheres"),
    (OD + "inputbuilder-universes", (-1, -3.75, 0.75), "johnny", "OrangeJson.test.cc universes/patty"),
    (OD + "inputbuilder-universes", (0.25, -3.75, 0.75), "patty", "ditto (mid seg 2)"),
    (OD + "inputbuilder-universes", (3.25, -3.75, 0.75), "c", "ditto (mid seg 3)"),
    (OD + "inputbuilder-universes", (2, -2, 1), "a", "inner +x (mid seg 3)"),
    (OD + "inputbuilder-universes", (4, -2, 1), "b", "inner +x (mid seg 4)"),
    (OD + "inputbuilder-universes", (4, 1, 1), "bobby", "inner +y (mid seg 5)"),
    (OD + "inputbuilder-hierarchy", (0, -20, 0), "interior", "hierarchy py"),
    (OD + "inputbuilder-hierarchy", (0, -5, 0), "d2", "hierarchy py (mid seg 2)"),
    (OD + "inputbuilder-hierarchy", (0, 5, 0), "d1", "hierarchy py (mid seg 4)"),
    (OD + "inputbuilder-hierarchy", (0, -5, -20), "d2", "py_filled (mid seg 2)"),
    (OD + "inputbuilder-hierarchy", (0, 0, -20), "filled_daughter", "py_filled (mid seg 3)"),
    (OD + "inputbuilder-hierarchy", (0, 0, -25), "leaf1", "pz (mid seg 3)"),
    (OD + "inputbuilder-hierarchy", (0, 0, -15), "leaf2", "pz (mid seg 5)"),
    (OD + "inputbuilder-hierarchy", (0, 0, -5), "leaf1", "pz (mid seg 8)"),
    (OD + "inputbuilder-hierarchy", (0, 0, 19.5), "bottom", "pz (mid seg 10)"),
    (OD + "inputbuilder-hierarchy", (0, 0, 20.5), "top", "pz (mid seg 11)"),
    (OD + "inputbuilder-universe-union-boundary", (0, 0, -9), "shell", "DISABLED test pz"),
    (OD + "inputbuilder-universe-union-boundary", (0, 0, 1.234), "bottomsph", "DISABLED test pz (mid seg 2)"),
    (OD + "inputbuilder-universe-union-boundary", (0, 0, 8.234), "bite", "DISABLED test pz (mid seg 3)"),
]


def fixtures():
    return sorted(glob.glob(OD + "*.org.json")) + sorted(glob.glob(GD + "*.org.json"))


def _short(f):
    return os.path.basename(os.path.dirname(os.path.dirname(f))) + "/" + \
        os.path.basename(f)[:-len(".org.json")]


def selftest(npts=20000):
    fails = []
    print("== (1) load every bundled fixture; union-boundary feature table")
    geos = {}
    for f in fixtures():
        try:
            geos[f] = OracleGeo(f)
            nu = len(geos[f].universes)
            print("  %-52s ok   universes=%-3d union_boundary_daughter=%s"
                  % (_short(f), nu, geos[f].has_union_boundary_daughter))
            want = f.endswith("inputbuilder-universe-union-boundary.org.json")
            if geos[f].has_union_boundary_daughter != want:
                fails.append("union flag wrong for " + f)
        except Unsupported as e:
            print("  %-52s UNSUPPORTED: %s" % (_short(f), e))
            if "involute" not in f:
                fails.append("unexpectedly unsupported: " + f)

    print("== (2) expected volumes from the repository's unit tests")
    for base, p, exp, src in EXPECT:
        d = geos[base + ".org.json"].locate([p])[0]
        got = d["name"] if d["valid"] else "!" + d["why"]
        ok = got == exp
        print("  %-4s %-48s %-22s exp=%-16s got=%-16s %s [%s]"
              % ("ok" if ok else "FAIL", _short(base + ".org.json"), p, exp, got,
                 d.get("detail", "") or d["label"], src))
        if not ok:
            fails.append("expected %s at %s in %s, got %s" % (exp, p, base, got))

    print("== (3) %d uniform random points in 1.05 x bbox" % npts)
    print("  %-52s %7s %7s %7s %7s %7s %7s  %s" % ("fixture", "valid", "outside",
                                                  "overlap", "gap", "near", "other", "sec"))
    for f, g in geos.items():
        lo, hi = (np.asarray(b, float) for b in g.world_bbox)
        c, h = (lo + hi) / 2, (hi - lo) / 2 * 1.05
        P = c + h * np.random.default_rng(12345).uniform(-1, 1, (npts, 3))
        t0 = time.time()
        res = g.locate(P)
        dt = time.time() - t0
        why = [d["why"] for d in res]
        fr = {k: sum(w == k for w in why) / npts for k in set(why)}
        outside = sum(d["outside"] for d in res) / npts
        other = sum(v for k, v in fr.items()
                    if k not in ("", "overlap", "gap", "near-surface"))
        print("  %-52s %7.4f %7.4f %7.4f %7.4f %7.4f %7.4f  %.2f"
              % (_short(f), fr.get("", 0), outside, fr.get("overlap", 0),
                 fr.get("gap", 0), fr.get("near-surface", 0), other, dt))
        bad = fr.get("overlap", 0) + fr.get("gap", 0) + other
        if bad and not f.endswith("/orange/data/universes.org.json"):
            ex = next(i for i, w in enumerate(why) if w not in ("", "near-surface"))
            fails.append("%s: %s at %s (%s)" % (_short(f), why[ex], P[ex].tolist(),
                                               res[ex].get("detail") or res[ex]["path"]))
        if f.endswith("/orange/data/universes.org.json") and not fr.get("overlap"):
            fails.append("universes.org.json: known overlap not detected")

    print("== (4) rotation direction, inputbuilder-hierarchy d2")
    # d2 is placed with R = rot_x(+90deg) = [[1,0,0],[0,0,-1],[0,1,0]],
    # t = (0,-5,0): x_parent = R x_d + t.  Daughter point (0.1,0.2,0.3) maps up
    # to (0.1, -0.3-5, 0.2) = (0.1,-5.3,0.2); going down that global point must
    # give back (0.1,0.2,0.3) = R^T (x - t).  (The wrong direction, R (x - t),
    # would give (0.1,-0.2,-0.3).)
    g = geos[OD + "inputbuilder-hierarchy.org.json"]
    d_uid, R, t = g.universes[0]["volumes"][2]["daughter"]
    q = (np.array([[0.1, -5.3, 0.2]]) - t) @ R
    print("  R=%s t=%s ; global (0.1,-5.3,0.2) -> local %s ; path %s"
          % (R.tolist(), t.tolist(), q[0].round(12).tolist(),
             g.locate([[0.1, -5.3, 0.2]])[0]["path"]))
    if not np.allclose(q[0], [0.1, 0.2, 0.3]):
        fails.append("rotation direction")

    print("== selftest %s" % ("PASSED" if not fails else "FAILED"))
    for m in fails:
        print("   FAIL:", m)
    return 1 if fails else 0


def main(argv):
    if len(argv) == 5 and argv[1] == "locate":
        return cli_locate(*argv[2:5])
    if len(argv) >= 2 and argv[1] == "selftest":
        return selftest(int(argv[2]) if len(argv) > 2 else 20000)
    sys.stderr.write(__doc__)
    return 2


if __name__ == "__main__":
    sys.exit(main(sys.argv))
