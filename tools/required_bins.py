#!/usr/bin/env python3
"""Print the harness executables needed by the checks registered in MANIFEST.json."""
import json, os
ROOT = os.path.dirname(os.path.dirname(os.path.abspath(__file__)))
BINS = {"C01": ["vsim"], "C02": ["vsim"], "C05": ["vsim"], "C16": ["vsim"], "C17": ["vsim"], "C06": ["vhist"],
        "C07": ["vstreams"], "C13": ["vrng"], "C18": ["valgo"], "C10": ["vcsg"], "C12": ["vsurf", "vinvolute"], "C03": ["vnav"],
        "C11": ["vnav"], "C08": ["vfield"], "C14": ["vgrid"], "C04": ["vinteract"], "C15": ["vsample"],
        "C09": ["vbuild"], "C19": ["vbuild"], "C20": ["voptical"]}
# extension checks (specs beyond the listed properties; bin/check X0n, evidence/extras/)
EXTRA_BINS = {"X01": ["vtracksort"], "X02": ["vlooping"], "X03": ["vbih"], "X04": ["vactionseq"], "X05": ["vsurfdedupe"],
              "X06": ["vboundzone"], "X07": ["vphysselect"]}
man = json.load(open(os.path.join(ROOT, "MANIFEST.json")))
need = sorted({b for c in man["checks"] for b in BINS.get(c["property_id"], [])})
import sys
if "--extras" in sys.argv:  # bin/setup only insists on what the registered (MANIFEST) checks need
    need = sorted(set(need) | {b for v in EXTRA_BINS.values() for b in v
                              if os.path.exists(os.path.join(ROOT, "harness", b + ".cc"))})
print(" ".join(need))
