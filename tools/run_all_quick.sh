#!/bin/sh
# tools/run_all_quick.sh [parallel] [ids...]: run the quick tier of every registered check (and the extension
# checks) on the unchanged tree, <parallel> at a time; print one line per check (exit code, wall time,
# VIOLATION count).  Logs under build/work/allquick/.
cd "$(dirname "$0")/.."
par="${1:-3}"; shift 2>/dev/null
ids="$*"
[ -n "$ids" ] || ids="C01 C02 C03 C04 C05 C06 C07 C08 C09 C10 C11 C12 C13 C14 C15 C16 C17 C18 C19 C20 X01 X02 X03 X04 X05 X06 X07"
mkdir -p build/work/allquick
echo $ids | tr ' ' '\n' | xargs -P "$par" -I{} sh -c 's=$(date +%s); VERIF_SEED=${VERIF_SEED:-1} bin/check {} --tier quick > build/work/allquick/{}.log 2>&1; rc=$?; e=$(date +%s); echo "{} exit=$rc wall=$((e-s))s violations=$(grep -c "^VIOLATION" build/work/allquick/{}.log) known=$(grep -c "^KNOWN-FINDING" build/work/allquick/{}.log)"'
