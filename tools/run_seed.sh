#!/bin/sh
# tools/run_seed.sh <seed-id e.g. C09_02> [tier]: apply seeded/<id>/patch.diff in a scratch worktree, run the
# property's check against it (bin/mutcheck), report exit code + VIOLATION lines, remove worktree and build.
id="$1"; tier="${2:-quick}"; prop="${id%%_*}"
WT=/tmp/seedrun_$id
LOG=/verif/build/work/seedruns/$id.$tier.log
git -C /repo worktree remove --force $WT 2>/dev/null; rm -rf ${WT} ${WT}_vbuild
git -C /repo worktree add --detach $WT HEAD >/dev/null 2>&1 || exit 3
git -C $WT apply /verif/seeded/$id/patch.diff || { echo "patch does not apply"; exit 3; }
/verif/bin/mutcheck $WT $prop --tier $tier > $LOG 2>&1
rc=$?
echo "== $id ($tier): exit=$rc violations=$(grep -c '^VIOLATION' $LOG)"
grep '^VIOLATION' $LOG | cut -c1-240 | sort | uniq -c | sort -rn | head -8
if [ -z "$KEEP" ]; then git -C /repo worktree remove --force $WT; rm -rf ${WT}_vbuild; fi
exit $rc
