#!/opt/veriftools/pyvenv/bin/python
"""C15 numeric oracle (scipy): parameter points, documented supports, bin edges, expected
counts and critical values for the seeded part of the sampler check.

  sampler_oracle.py <n_per_point> <bins> <out.json> <seed>

Everything here is ORACLE-DECIDED input for spec/SamplerTrace.tla (DESIGN.md section 5, C15:
"the analytic CDFs (scipy) -- the weakest binding in the whole design"): the reference laws
are written from the documented definitions (class documentation / Geant4 Physics Reference
Manual formulas), never by calling the code under test.  The harness only bins; the integer
goodness-of-fit arithmetic is done by TLC.

Per histogram:  es[i] = ceil(16 E_i),  critq = floor(8 chi2.isf(1e-9, bins-1)).
"""
import json
import math
import sys

import numpy as np
from scipy import integrate, optimize, stats

P_FALSE_ALARM = 1e-9
ES, CQ = 16, 8
EMIN = 50.0
REFS = {}      # dist -> description of the reference law (reported in the evidence)


def crit_q(nbins):
    return int(math.floor(CQ * stats.chi2.isf(P_FALSE_ALARM, nbins - 1)))


def hist_from_cdf(c, cdf, ppf, n, bins):
    """Equal-probability bins from ppf; expected counts from cdf differences."""
    qs = [i / bins for i in range(1, bins)]
    edges = sorted(set(float(ppf(q)) for q in qs))
    edges = [e for e in edges if math.isfinite(e)]
    cd = [0.0] + [float(cdf(e)) for e in edges] + [1.0]
    exp = [n * (cd[i + 1] - cd[i]) for i in range(len(cd) - 1)]
    return finish_hist(c, edges, exp)


def finish_hist(c, edges, exp):
    es = [0 if e <= 0 else int(math.ceil(ES * e)) for e in exp]
    live = [e for e in exp if e > 0]
    if any(e < EMIN for e in live):
        raise SystemExit("oracle: expected count below %g: %r" % (EMIN, exp))
    # a single live bin has no degrees of freedom: only "zero-mass bins stay empty" is checked
    cq = crit_q(len(live)) if len(live) >= 2 else CQ
    return {"c": c, "edges": edges, "es": es, "critq": cq, "nbins": len(live)}


def hist_discrete(c, pmf_cum, kmax_hint, n, maxbins):
    """Integer-valued law: merge consecutive integers until each bin expects >= max(EMIN, n/maxbins).
    pmf_cum(k) = P(X <= k).  Edges at k + 1/2."""
    best = None
    for emin in [n / float(maxbins), n / (4.0 * maxbins), n / (16.0 * maxbins), EMIN]:
        best = _hist_discrete(c, pmf_cum, kmax_hint, n, max(EMIN, emin))
        if best["nbins"] >= 4:
            break
    return best


def _hist_discrete(c, pmf_cum, kmax_hint, n, emin):
    edges, exp = [], []
    k = 0
    lo_cum = 0.0
    while True:
        cum = float(pmf_cum(k))
        if n * (cum - lo_cum) >= emin and n * (1.0 - cum) >= emin:
            edges.append(k + 0.5)
            exp.append(n * (cum - lo_cum))
            lo_cum = cum
        if 1.0 - cum < 1e-15 or k > kmax_hint:
            break
        # jump quickly through empty regions for huge means
        k += 1 if kmax_hint < 5000 else max(1, int(kmax_hint / 40000))
    exp.append(n * (1.0 - lo_cum))
    return finish_hist(c, edges, exp)


def draw_cap(p_acc, per_iter, n, extra=0):
    """Largest plausible number of uniforms for one sample of a rejection loop: iterations M with
    n (1 - p_acc)^M < 1e-12."""
    p_acc = min(max(p_acc, 1e-6), 1 - 1e-12)
    m = int(math.ceil(math.log(1e-12 / n) / math.log(1.0 - p_acc))) + 1
    return per_iter * m + extra


# ----------------------------------------------------------------------------- laws
def tsai_G(u):
    g2 = lambda x: 1.0 - (1.0 + x) * math.exp(-x)
    return 0.25 * g2(u / 1.6) + 0.75 * g2(u / (1.6 / 3.0))


def moller_H(eps, gamma):
    tg = (2 * gamma - 1) / gamma ** 2
    return -1 / eps - tg * math.log(eps) + (1 - tg) * eps + 1 / (1 - eps) + tg * math.log(1 - eps)


def bhabha_coef(gamma):
    y = 1 / (1 + gamma)
    b1 = 2 - y * y
    b2 = (1 - 2 * y) * (3 + y * y)
    b4 = (1 - 2 * y) ** 3
    b3 = (1 - 2 * y) ** 2 + b4
    beta_sq = 1 - 1 / gamma ** 2
    return b1, b2, b3, b4, beta_sq


def bhabha_H(eps, gamma):
    b1, b2, b3, b4, bsq = bhabha_coef(gamma)
    return -1 / (bsq * eps) - b1 * math.log(eps) + b2 * eps - b3 * eps ** 2 / 2 + b4 * eps ** 3 / 3


def invert(cdf, q, lo, hi):
    return optimize.brentq(lambda x: cdf(x) - q, lo, hi, xtol=1e-300, rtol=8.9e-16, maxiter=500)


def main():
    n, bins, out, seed = int(sys.argv[1]), int(sys.argv[2]), sys.argv[3], int(sys.argv[4])
    pts = []

    def add(dist, label, p, lo, hi, hists, dcap=0, branch="", ncomp=1, nn=None):
        pts.append({"id": len(pts) + 1, "dist": dist, "label": "%s[%s]" % (dist, label), "branch": branch,
                    "p": [float(x) for x in p], "n": int(nn or n), "ncomp": ncomp,
                    "lo": lo, "hi": hi, "dcap": int(dcap), "hists": hists})

    def cont(frozen):
        return [hist_from_cdf(0, frozen.cdf, frozen.ppf, n, bins)]

    # ---- uniform / box / isotropic
    REFS["uniform"] = "scipy.stats.uniform(a, b-a)  [documented pdf 1/(b-a) on [a,b)]"
    for a, b in [(0.0, 1.0), (-5.0, 3.0), (1e-200, 3e-200), (-1e200, 1e200)]:
        add("uniform", "%g,%g" % (a, b), [a, b], [a], [b], cont(stats.uniform(a, b - a)))
    REFS["box"] = "per axis scipy.stats.uniform"
    lo3, hi3 = [-1.0, 2.0, 1e-3], [1.0, 2.5, 1e3]
    add("box", "mixed", lo3 + hi3, lo3, hi3,
        [hist_from_cdf(c, stats.uniform(lo3[c], hi3[c] - lo3[c]).cdf, stats.uniform(lo3[c], hi3[c] - lo3[c]).ppf, n, bins)
         for c in range(3)], ncomp=3)
    REFS["isotropic"] = "each Cartesian component uniform on [-1,1] (Archimedes); |v|^2 in 1 +- 1e-14"
    add("isotropic", "-", [], [-1.0] * 3, [1.0] * 3,
        [hist_from_cdf(c, stats.uniform(-1, 2).cdf, stats.uniform(-1, 2).ppf, n, bins) for c in range(3)], ncomp=3)

    # ---- exponential
    REFS["exponential"] = "scipy.stats.expon(scale=1/lambda)"
    for lam in [1.0, 0.37, 1e-200, 1e200]:
        add("exponential", "%g" % lam, [lam], [0.0], [None], cont(stats.expon(scale=1 / lam)))

    # ---- normal
    REFS["normal"] = "scipy.stats.norm(mean, stddev)"
    for m, s in [(0.0, 1.0), (1e3, 1e-3), (-7.0, 1e150), (0.0, 1e-150)]:
        add("normal", "%g,%g" % (m, s), [m, s], [None], [None], cont(stats.norm(m, s)), dcap=2)

    # ---- gamma (alpha < 1 branch and alpha >= 1)
    REFS["gamma"] = "scipy.stats.gamma(a=alpha, scale=beta)"
    for a, b, br in [(0.05, 1.0, "alpha<1"), (0.5, 1.0, "alpha<1"), (0.999, 2.0, "alpha<1"),
                     (1.0, 1.0, "alpha>=1"), (1.001, 1e-100, "alpha>=1"), (2.5, 1e100, "alpha>=1"),
                     (100.0, 1.0, "alpha>=1"), (1e4, 0.01, "alpha>=1")]:
        add("gamma", "%g,%g" % (a, b), [a, b], [0.0], [None], cont(stats.gamma(a, scale=b)), dcap=64, branch=br)

    # ---- poisson: direct method (lambda <= 16) against the Poisson pmf; Gaussian approximation
    #      (lambda > 16) against the DOCUMENTED law: normal(lambda, sqrt(lambda)) + 1/2 truncated
    REFS["poisson"] = ("lambda <= 16: scipy.stats.poisson(lambda).  lambda > 16: the documented Gaussian "
                       "approximation, k = trunc(N(lambda, sqrt(lambda)) + 1/2): P(k) = Phi((k+.5-l)/s) - "
                       "Phi((k-.5-l)/s), k = 0 also collects (-1.5-l, -.5-l); values below are F-SAMP-1")
    for lam in [0.01, 1.0, 4.0, 15.9, 16.0]:
        kmax = lam + 40 * math.sqrt(lam) + 60
        add("poisson", "%g" % lam, [lam], [0.0], [None],
            [hist_discrete(0, stats.poisson(lam).cdf, kmax, n, bins)], dcap=int(kmax) + 1, branch="direct")
    for lam in [16.0001, 17.0, 20.0, 64.0, 1e4, 1e8]:
        s = math.sqrt(lam)
        under = stats.norm.cdf((-1.5 - lam) / s)          # mass of the undefined conversion (F-SAMP-1)
        cum = lambda k, lam=lam, s=s, under=under: (stats.norm.cdf((k + 0.5 - lam) / s) - under) / (1 - under)
        add("poisson", "%g" % lam, [lam], [0.0], [None],
            [hist_discrete(0, cum, lam + 40 * s + 60, n, bins)], dcap=2, branch="gauss")

    # ---- reciprocal / inverse square / radial
    REFS["reciprocal"] = "scipy.stats.loguniform(min(a,b), max(a,b))"
    for a, b, br in [(1.0, 2.0, ""), (1e-10, 1e10, ""), (1e-150, 1e150, ""), (8.0, 2.0, "reversed")]:
        add("reciprocal", "%g,%g" % (a, b), [a, b], [min(a, b)], [max(a, b)],
            cont(stats.loguniform(min(a, b), max(a, b))), branch=br)
    REFS["invsq"] = "closed form from the documented pdf ab/(x^2 (b-a)): F(x) = b (x-a) / (x (b-a))"
    for a, b in [(1.0, 2.0), (1e-3, 1e3), (5.0, 5.000001)]:
        cdf = lambda x, a=a, b=b: min(1.0, max(0.0, b * (x - a) / (x * (b - a))))
        ppf = lambda q, a=a, b=b: a * b / (b - q * (b - a))
        add("invsq", "%g,%g" % (a, b), [a, b], [a], [b], [hist_from_cdf(0, cdf, ppf, n, bins)])
    REFS["radial"] = "uniform in the ball: F(r) = (r/R)^3"
    for R in [1.0, 1e-100, 1e100]:
        add("radial", "%g" % R, [R], [0.0], [R],
            [hist_from_cdf(0, lambda r, R=R: (r / R) ** 3, lambda q, R=R: R * q ** (1.0 / 3.0), n, bins)])

    # ---- bernoulli / rejection / selector / delta
    REFS["bernoulli"] = "P(true) = p"
    for p in [0.5, 0.3, 1e-3, 0.999]:
        add("bernoulli", "%g" % p, [p], [0.0], [1.0], [finish_hist(0, [0.5], [n * (1 - p), n * p])])
    REFS["rejection"] = "P(reject) = 1 - f/fmax"
    for f, fm in [(1.0, 4.0), (0.999, 1.0), (2.0, 2.0)]:
        add("rejection", "%g,%g" % (f, fm), [f, fm], [0.0], [1.0],
            [finish_hist(0, [0.5], [n * f / fm, n * (1 - f / fm)])])
    REFS["selector"] = "P(i) = w_i / total; zero-weight entries must never be selected"
    for lab, w in [("1234", [1.0, 2.0, 3.0, 4.0]), ("zeros", [0.1, 0.0, 0.2, 0.7, 0.0]),
                   ("rare", [1e-3, 1 - 1e-3]), ("20eq", [0.05] * 20), ("big", [1e300, 3e300])]:
        tot = math.fsum(w)
        add("selector", lab, w + [tot], [0.0], [float(len(w))],
            [finish_hist(0, [i + 0.5 for i in range(len(w) - 1)], [n * x / tot for x in w])])
    REFS["delta"] = "constant"
    add("delta", "2.5", [2.5], [2.5], [2.5], [])

    # ---- Tsai-Urban polar angle: u ~ 1/4 Gamma(2, 1.6) + 3/4 Gamma(2, 1.6/3) truncated to u <= umax,
    #      cos theta = 1 - 2 (u/umax)^2
    REFS["tsai"] = ("Geant4 PRM 6.5.2 / ModifiedTsai: u ~ [u e^{-au} + 27 u e^{-3au}], a = 0.625, truncated at "
                    "umax = 2(1 + E/m); cos theta = 1 - 2 (u/umax)^2; quantiles by brentq")
    for e, m, gof in [(0.0, 0.511, True), (1.0, 0.511, True), (100.0, 0.511, True), (1e4, 0.511, True),
                      (1e7, 0.511, False), (1e-3, 105.66, True)]:
        umax = 2 * (1 + e / m)
        gmax = tsai_G(umax)
        hists = []
        if gof:
            fu = lambda u, gmax=gmax: tsai_G(u) / gmax
            cdf = lambda c, umax=umax, fu=fu: 1.0 - fu(umax * math.sqrt(max(0.0, (1 - c) / 2)))
            ppf = lambda q, umax=umax, fu=fu: 1 - 2 * (invert(fu, 1 - q, 0.0, umax) / umax) ** 2
            hists = [hist_from_cdf(0, cdf, ppf, n, bins)]
        add("tsai", "%g,%g" % (e, m), [e, m], [-1.0], [1.0], hists, dcap=draw_cap(gmax, 3, n))

    # ---- energy loss: Gaussian (truncated to (0, 2 mean]), gamma, Urban
    REFS["elgauss"] = "scipy.stats.truncnorm on (0, 2 mean] around mean with the Bohr deviation"
    for mean, sd in [(1.0, 0.1), (1.0, 0.5), (1.0, 4.0), (1e-3, 1e-3), (1e5, 1e3), (1e-8, 1e-12)]:
        a, b = (0 - mean) / sd, (2 * mean - mean) / sd
        pacc = stats.norm.cdf(b) - stats.norm.cdf(a)
        add("elgauss", "%g,%g" % (mean, sd), [mean, sd], [0.0], [2 * mean],
            cont(stats.truncnorm(a, b, loc=mean, scale=sd)), dcap=draw_cap(pacc, 1, n, extra=2))
    REFS["elgamma"] = "scipy.stats.gamma(a = mean^2/var, scale = var/mean)"
    for mean, var in [(1.0, 1.0), (1.0, 4.0), (1.0, 0.3), (1e-3, 1e-5), (1e3, 1e7)]:
        k = mean * mean / var
        add("elgamma", "%g,%g" % (mean, var), [mean, var], [0.0], [None],
            cont(stats.gamma(k, scale=var / mean)), dcap=64, branch="alpha<1" if k < 1 else "alpha>=1")
    REFS["urban"] = "no closed-form reference law: support and draw bound only"
    me = 0.5109989461
    for lab, mean, emax, gam in [("e100MeV-thin", 0.01, 1e-3, 1 + 100 / me), ("min", 2e-5, 1.1e-5, 1 + 100 / me),
                                 ("thick", 10.0, 1.0, 1 + 1e3 / me), ("slow", 1e-3, 2e-4, 1.0005),
                                 ("huge", 1e3, 1e2, 1e5)]:
        bsq = 1 - 1 / gam ** 2
        add("urban", lab, [mean, emax, 2 * me * bsq * gam * gam, bsq], [0.0], [None], [], dcap=4000,
            nn=max(1000, n // 10))

    # ---- EnergyLossHelper + the fluctuation model it selects (none/gamma/gaussian/urban): the law clause is
    #      the models' defining property "sample mean = requested mean loss" (no oracle input needed; the
    #      bracket comes from the sample variance), over a sweep that reaches every selection branch and the
    #      Urban excitation on/off x ionisation slow/fast combinations (the trace spec derives the branch
    #      from ranks of the compared quantities; the driver fails as Broken if one is never reached)
    REFS["elhelper"] = ("no oracle: E[loss] = requested mean loss (documented defining property of the "
                        "fluctuation models), bracket 6 s/sqrt(N) + 1e-3 mean from the sample variance")
    H, AR, PB = 0, 1, 2
    E, MU = 0, 1
    for lab, part, t, mean, step, cut, mat in [
            ("none-mean", E, 1.0, 5e-6, 1e-4, 1e-3, AR),
            ("none-emax", E, 1.5e-5, 1.2e-5, 1e-6, 1e-3, AR),
            ("e100MeV-fast", E, 100.0, 1e-2, 1e-2, 1e-3, AR),
            ("e1MeV-fast", E, 1.0, 2e-3, 1e-3, 1e-3, AR),
            ("e1MeV-slow", E, 1.0, 2e-4, 1e-4, 1e-3, AR),
            ("e1MeV-cut10keV", E, 1.0, 3e-3, 1e-3, 1e-2, AR),
            ("e700eV-onelevel", E, 7e-4, 1e-4, 1e-6, 1e-3, AR),
            ("e300eV-excoff", E, 3e-4, 5e-5, 1e-6, 1e-3, AR),
            ("e100eV-excoff", E, 1e-4, 3e-5, 1e-7, 1e-3, AR),
            ("mu5keV-excoff-slow", MU, 5e-3, 2e-4, 1e-5, 1e-3, AR),
            ("mu5keV-excoff-fast", MU, 5e-3, 8e-4, 4e-5, 1e-3, AR),
            ("mu2keV-excoff", MU, 2e-3, 1e-4, 1e-5, 1e-3, AR),
            ("mu50keV-onelevel-fast", MU, 5e-2, 5e-3, 1e-4, 1e-3, AR),
            ("mu50keV-onelevel-slow", MU, 5e-2, 5e-4, 1e-5, 1e-3, AR),
            ("mu100MeV-tmax", MU, 100.0, 5e-2, 1e-2, 1e-3, AR),
            ("mu100MeV-kappa", MU, 100.0, 5e-3, 1e-3, 1e-3, AR),
            ("mu1MeV-gaussian", MU, 1.0, 0.3, 1e-3, 1.0, AR),
            ("mu1MeV-gamma-k<1", MU, 1.0, 0.3, 5e-2, 1.0, AR),
            ("mu1MeV-gamma-k>1", MU, 1.0, 0.3, 2e-2, 1.0, AR),
            ("e10MeV-Pb", E, 10.0, 2e-2, 2e-3, 1e-2, PB),
            ("e10keV-Pb-onelevel", E, 1e-2, 1e-3, 1e-5, 1e-3, PB),
            ("e1keV-Pb-excoff", E, 1e-3, 2e-4, 1e-6, 1e-3, PB),
            ("mu20keV-Pb-excoff", MU, 2e-2, 2e-3, 1e-5, 1e-3, PB),
            ("e1MeV-H", E, 1.0, 1e-3, 1e-2, 1e-3, H),
            ("e30eV-H", E, 3e-5, 1.2e-5, 1e-6, 1e-3, H),
            ("mu1keV-H", MU, 1e-3, 1e-4, 1e-5, 1e-3, H)]:
        add("elhelper", lab, [part, t, mean, step, cut, mat], [0.0], [None], [], dcap=4000)

    # ---- Moller / Bhabha energy fraction
    REFS["moller"] = ("Geant4 PRM Moller: pdf ~ 1/e^2 - t/e + (1-t) + 1/(1-e)^2 - t/(1-e), t = (2g-1)/g^2, on "
                      "[Emin/E, 1/2]; closed-form antiderivative, quantiles by brentq")
    REFS["bhabha"] = ("Geant4 PRM Bhabha: pdf ~ 1/(b^2 e^2) - B1/e + B2 - B3 e + B4 e^2 on [Emin/E, 1]; "
                      "closed-form antiderivative, quantiles by brentq")
    for dist, H, emaxf in [("moller", moller_H, 0.5), ("bhabha", bhabha_H, 1.0)]:
        for emin, einc in [(1e-3, 1.0), (1e-3, 1e3), (0.1, 0.25), (1e-3, 2.1e-3)]:
            e0 = emin / einc
            if e0 >= emaxf:
                continue
            gam = 1 + einc / me
            h0, h1 = H(e0, gam), H(emaxf, gam)
            cdf = lambda x, H=H, gam=gam, h0=h0, h1=h1, e0=e0, emaxf=emaxf: \
                0.0 if x <= e0 else (1.0 if x >= emaxf else (H(x, gam) - h0) / (h1 - h0))
            ppf = lambda q, cdf=cdf, e0=e0, emaxf=emaxf: invert(cdf, q, e0, emaxf)
            # acceptance of the rejection loop (proposal 1/e^2 on [e0, emax]) -- bounded below by
            # the ratio of the normalisations
            prop = (1 / e0 - 1 / emaxf)
            if dist == "moller":
                tg = (2 * gam - 1) / gam ** 2
                gmax = 2.25 - 1.25 * tg
            else:
                b1, b2, b3, b4, bsq = bhabha_coef(gam)
                gmax = 1 + (b4 - e0 ** 3 * b3 + b2 - e0 * b1) * bsq
            scale = 1.0 if dist == "moller" else bsq
            pacc = (h1 - h0) * scale / (prop * gmax)
            add(dist, "%g,%g" % (emin, einc), [me, emin, einc], [e0], [emaxf],
                [hist_from_cdf(0, cdf, ppf, n, bins)], dcap=draw_cap(min(pacc, 1.0) * 0.9, 2, n))

    with open(out, "w") as fh:
        json.dump({"seed": seed & 0xffffffff, "points": pts, "refs": REFS,
                   "p_false_alarm": P_FALSE_ALARM, "bins": bins}, fh)
    print(json.dumps({"points": len(pts), "hists": sum(len(p["hists"]) for p in pts)}))


main()
