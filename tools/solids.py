"""Seeded generator of orangeinp scenes for C09 / C19 (DESIGN.md 5 C09).

One scene = one JSON object (one ndjson line) read both by TLC (spec/SolidsTrace.tla, as the
`Scene` record echoed by the harness) and by harness/vbuild.cc (which builds it through the
public construction API).  All parameters are integers; the only non-integer numbers the
harness ever sees are (a) m/den of Pythagorean rotations and (b) the tolerance-sized
perturbations `eps`/`et` of the second pass (units of half an effective tolerance).

Object vocabulary and meaning: spec/Solids.tla.  This module decides NOTHING about
membership: it only keeps scenes inside the preconditions of the API (positive sizes,
convex same-winding generalised prisms with < quarter-turn twist, enclosed hollow
interiors, finite global boundary, one masking priority) and inside 32-bit arithmetic.
"""
import json
import math
import random
from fractions import Fraction

# ------------------------------------------------------------------ exact transforms
def _perms():
    out = []
    import itertools
    for p in itertools.permutations(range(3)):
        for s in itertools.product((1, -1), repeat=3):
            out.append([[s[i] if p[i] == j else 0 for j in range(3)] for i in range(3)])
    return out


SIGNED_PERMS = _perms()  # 48, rows
SCALE = 96   # bound on every coordinate magnitude met while locating a probe (spec: a point beyond it is "near")
PYTH = [[3, -4, 0], [4, 3, 0], [0, 0, 5]]
IDENT = [[1, 0, 0], [0, 1, 0], [0, 0, 1]]


def matmul(a, b):
    return [[sum(a[i][k] * b[k][j] for k in range(3)) for j in range(3)] for i in range(3)]


def isqrt_ceil(v):
    r = math.isqrt(v)
    return r if r * r == v else r + 1


# ------------------------------------------------------------------ polygons (exact)
def cross(a, b):
    return a[0] * b[1] - a[1] * b[0]


def sub2(a, b):
    return (a[0] - b[0], a[1] - b[1])


def hull(pts):
    pts = sorted(set(pts))
    if len(pts) < 3:
        return []
    lo, up = [], []
    for p in pts:
        while len(lo) >= 2 and cross(sub2(lo[-1], lo[-2]), sub2(p, lo[-1])) <= 0:
            lo.pop()
        lo.append(p)
    for p in reversed(pts):
        while len(up) >= 2 and cross(sub2(up[-1], up[-2]), sub2(p, up[-1])) <= 0:
            up.pop()
        up.append(p)
    return lo[:-1] + up[:-1]  # counterclockwise, strictly convex


def strictly_convex_ccw(poly):
    n = len(poly)
    return n >= 3 and all(cross(sub2(poly[(i + 1) % n], poly[i]), sub2(poly[(i + 2) % n], poly[(i + 1) % n])) > 0
                          for i in range(n))


def genprism_ok(lo, hi):
    """API preconditions of GenPrism (both ccw here) + every cross-section strictly convex."""
    n = len(lo)
    apex_hi = len(set(hi)) == 1
    apex_lo = len(set(lo)) == 1
    if apex_hi and apex_lo:
        return False
    if not (apex_lo or strictly_convex_ccw(lo)) or not (apex_hi or strictly_convex_ccw(hi)):
        return False
    for i in range(n):
        j, k = (i + 1) % n, (i + 2) % n
        el, eh = sub2(lo[j], lo[i]), sub2(hi[j], hi[i])
        if not (apex_lo or apex_hi):
            if el[0] * eh[0] + el[1] * eh[1] <= 0:  # twist of a quarter turn or more
                return False
        # convexity of the interpolated section at corner j: q(t) > 0 on (0, 1)
        fl, fh = sub2(lo[k], lo[j]), sub2(hi[k], hi[j])
        d1, d2 = sub2(eh, el), sub2(fh, fl)
        c0 = cross(el, fl)
        c1 = cross(el, d2) + cross(d1, fl)
        c2 = cross(d1, d2)
        q = lambda t: c0 + c1 * t + c2 * t * t
        ts = [Fraction(1, 2), Fraction(1, 16), Fraction(15, 16)]
        if c2 != 0:
            tv = Fraction(-c1, 2 * c2)
            if 0 < tv < 1:
                ts.append(tv)
        if q(0) < 0 or q(1) < 0 or any(q(t) <= 0 for t in ts):
            return False
    return True


# ------------------------------------------------------------------ generator
class Gen:
    def __init__(self, seed):
        self.rng = random.Random(seed)
        self.kinds = {}
        self.respell_p = 0.0     # probability of writing a boolean node in its De Morgan spelling (set per scene)

    def ri(self, a, b):
        return self.rng.randint(a, b)

    def count(self, k):
        self.kinds[k] = self.kinds.get(k, 0) + 1

    # ---- transforms
    def tf(self, spread, pyth_ok, force_rot=False):
        r = self.rng.random()
        m, den = IDENT, 1
        if force_rot or r < 0.55:
            if pyth_ok and self.rng.random() < 0.45:
                m = matmul(self.rng.choice(SIGNED_PERMS), matmul(PYTH, self.rng.choice(SIGNED_PERMS)))
                den = 5
            else:
                m = self.rng.choice(SIGNED_PERMS)
        t = [self.ri(-spread, spread) for _ in range(3)]
        if m == IDENT and t == [0, 0, 0]:
            t[self.ri(0, 2)] = self.rng.choice([-2, -1, 1, 2])
        return {"m": m, "den": den, "t": t}

    # ---- leaves
    def ea(self, must=False):
        if not must and self.rng.random() < 0.5:
            return []
        return [self.ri(-2, 5), self.ri(1, 3)]

    def prim(self, kind):
        g = self.ri
        if kind == "box":
            return {"k": "box", "h": [g(2, 8), g(2, 8), g(2, 8)]}
        if kind == "sphere":
            return {"k": "sphere", "r": g(2, 8)}
        if kind == "cyl":
            return {"k": "cyl", "r": g(2, 7), "hh": g(2, 8)}
        if kind == "cone":
            a, b = g(0, 7), g(0, 7)
            while a == b:
                b = g(0, 7)
            return {"k": "cone", "rlo": a, "rhi": b, "hh": g(2, 8)}
        if kind == "ell":
            return {"k": "ell", "r": [g(2, 5), g(2, 5), g(2, 5)]}
        if kind == "prism4":
            return {"k": "prism4", "a": g(2, 7), "hh": g(2, 8)}
        if kind == "trd":
            return {"k": "trd", "hh": g(2, 8), "lo": [g(1, 7), g(1, 7)], "hi": [g(1, 7), g(1, 7)]}
        if kind == "genprism":
            return self.genprism()
        raise ValueError(kind)

    def genprism(self):
        for _ in range(200):
            n = self.ri(3, 5)
            pts = [(self.ri(-6, 6), self.ri(-6, 6)) for _ in range(n + 2)]
            lo = hull(pts)
            if not (3 <= len(lo) <= 6):
                continue
            mode = self.rng.random()
            if mode < 0.25:      # skewed prism: planar parallelogram sides
                d = (self.ri(-3, 3), self.ri(-3, 3))
                hi = [(p[0] + d[0], p[1] + d[1]) for p in lo]
            elif mode < 0.45:    # frustum (scaled copy): planar sides
                if max(max(abs(c) for c in p) for p in lo) > 4:
                    continue
                hi = list(lo)
                lo = [(2 * p[0], 2 * p[1]) for p in lo]
            elif mode < 0.6:     # pyramid: apex on the +z face
                c = (self.ri(-2, 2), self.ri(-2, 2))
                hi = [c] * len(lo)
            else:                # twisted sides
                hi = [(p[0] + self.ri(-2, 2), p[1] + self.ri(-2, 2)) for p in lo]
            if self.rng.random() < 0.3:
                lo, hi = hi, lo
            if not genprism_ok(lo, hi):
                continue
            if self.rng.random() < 0.3:  # clockwise input: the API must reverse it
                lo, hi = lo[::-1], hi[::-1]
            k = self.ri(0, len(lo) - 1)   # rotate the start vertex
            if len(set(lo)) > 1 and len(set(hi)) > 1:
                lo, hi = lo[k:] + lo[:k], hi[k:] + hi[:k]
            return {"k": "genprism", "hh": self.ri(2, 7), "lo": [list(p) for p in lo], "hi": [list(p) for p in hi]}
        return {"k": "trd", "hh": 3, "lo": [2, 3], "hi": [4, 1]}

    def solid(self):
        g = self.ri
        base = self.rng.choice(["cyl", "cyl", "cone", "sphere", "prism4"])
        out = self.prim(base)
        hollow = self.rng.random() < 0.65
        ea = self.ea(must=not hollow)
        o = {"k": "solid", "out": out, "ea": ea}
        if hollow:
            if base == "cyl":
                if out["r"] < 3:
                    out["r"] = 3
                o["inn"] = {"k": "cyl", "r": g(1, out["r"] - 1), "hh": g(max(1, out["hh"] - 2), out["hh"])}
            elif base == "sphere":
                if out["r"] < 3:
                    out["r"] = 3
                o["inn"] = {"k": "sphere", "r": g(1, out["r"] - 1)}
            elif base == "prism4":
                if out["a"] < 3:
                    out["a"] = 3
                o["inn"] = {"k": "prism4", "a": g(1, out["a"] - 1), "hh": g(max(1, out["hh"] - 2), out["hh"])}
            else:
                for _ in range(20):
                    a, b = g(0, out["rlo"]), g(0, out["rhi"])
                    if a != b and (a, b) != (out["rlo"], out["rhi"]):
                        o["inn"] = {"k": "cone", "rlo": a, "rhi": b, "hh": g(max(1, out["hh"] - 2), out["hh"])}
                        break
                else:   # cannot make a valid inner cone: a slice only
                    o["ea"] = self.ea(must=True)
        return o

    def polycone(self):
        """z planes (nondecreasing; a repeated plane is a radial step), outer radii, optional inner radii."""
        g = self.ri
        nseg = g(1, 3)
        zs = sorted(self.rng.sample(range(-8, 9), nseg + 1))
        hollow = self.rng.random() < 0.4

        taper = hollow and self.rng.random() < 0.5   # cavity may come to a point: inner radius 0 at ONE end of a segment

        def rad():
            o = g(2 if hollow else 0, 7)
            return (o, g(0 if taper else 1, o - 1) if hollow else 0)

        z, ro, ri = [], [], []
        cur = rad()
        for i in range(nseg):
            if not (z and z[-1] == zs[i] and (ro[-1], ri[-1]) == cur and self.rng.random() < 0.8):
                z.append(zs[i]); ro.append(cur[0]); ri.append(cur[1])
            nxt = rad()
            while (nxt[0] == 0 and cur[0] == 0) or (hollow and nxt[1] == 0 and cur[1] == 0):
                nxt = rad()      # a segment needs a nonzero outer radius and (if hollow) a nonzero inner radius at one end
            z.append(zs[i + 1]); ro.append(nxt[0]); ri.append(nxt[1])
            cur = nxt
            if i < nseg - 1 and self.rng.random() < 0.4:   # radial step at the next plane
                cur = rad()
                while cur[0] == 0:
                    cur = rad()
        return {"k": "polycone", "z": z, "ro": ro, "ri": ri if hollow else [], "ea": self.ea()}

    def polyprism4(self):
        g = self.ri
        nseg = g(1, 3)
        zs = sorted(self.rng.sample(range(-8, 9), nseg + 1))
        hollow = self.rng.random() < 0.4
        z, ro, ri = [], [], []
        prev = None
        for i in range(nseg):
            a = g(2 if hollow else 1, 7)
            while a == prev:
                a = g(2 if hollow else 1, 7)
            prev = a
            b = g(1, a - 1) if hollow else 0
            z += [zs[i], zs[i + 1]]
            ro += [a, a]
            ri += [b, b]
        return {"k": "polyprism4", "z": z, "ro": ro, "ri": ri if hollow else [], "ea": self.ea()}

    LEAVES = (["box"] * 3 + ["sphere"] * 2 + ["cyl"] * 2 + ["cone"] * 3 + ["ell"] * 2 + ["prism4"] + ["trd"] * 2
              + ["genprism"] * 3 + ["solid"] * 4 + ["polycone"] * 3 + ["polyprism4"] * 2)

    def leaf(self):
        kind = self.rng.choice(self.LEAVES)
        if kind == "solid":
            o = self.solid()
            self.count("solid:" + o["out"]["k"])
        elif kind == "polycone":
            o = self.polycone()
            self.count(kind)
        elif kind == "polyprism4":
            o = self.polyprism4()
            self.count(kind)
        else:
            o = self.prim(kind)
            self.count(o["k"])
        return o

    # ---- object trees (depth = nesting of boolean / transform nodes above the leaf)
    def obj(self, depth, pyth_ok):
        if depth <= 0 or self.rng.random() < 0.3:
            return self.leaf()
        r = self.rng.random()
        if r < 0.3:
            t = self.tf(3, pyth_ok)
            return {"k": "tf", "t": t, "c": self.obj(depth - 1, pyth_ok and t["den"] == 1)}
        kids = lambda n: [self.shifted(self.obj(depth - 1, pyth_ok), pyth_ok) for _ in range(n)]
        if r < 0.5:
            self.count("op:any")
            return {"k": "any", "c": kids(self.ri(2, 3))}
        if r < 0.68:
            self.count("op:all")
            c = kids(2)
            x = self.rng.random()
            if x < 0.3:
                self.count("op:not")
                c.append({"k": "not", "c": self.shifted(self.obj(depth - 1, pyth_ok), pyth_ok)})
            elif x < 0.45:
                self.count("wedge")
                c.append({"k": "wedge", "s": self.ri(0, 3), "w": self.ri(1, 2)})
            return {"k": "all", "c": c}
        if r < 0.86:
            self.count("op:sub")
            a, b = kids(2)
            return {"k": "sub", "a": a, "b": b}
        self.count("op:rdv")
        c = kids(self.ri(2, 3))
        return {"k": "rdv", "c": [["in", c[0]]] + [[self.rng.choice(["out", "out", "in"]), x] for x in c[1:]]}

    def shifted(self, o, pyth_ok):
        """Operands of a boolean get small relative displacements so that they overlap."""
        if self.rng.random() < 0.6:
            t = self.tf(3, pyth_ok and not has_pyth(o))
            return {"k": "tf", "t": t, "c": o}
        return o


def has_pyth(o):
    k = o["k"]
    if k == "tf":
        return o["t"]["den"] != 1 or has_pyth(o["c"])
    if k in ("any", "all"):
        return any(has_pyth(c) for c in o["c"])
    if k == "rdv":
        return any(has_pyth(c[1]) for c in o["c"])
    if k == "not":
        return has_pyth(o["c"])
    if k == "sub":
        return has_pyth(o["a"]) or has_pyth(o["b"])
    return False


def neg(o):
    return {"k": "not", "c": o}


def respell(g, o, p=0.3):
    """The same region written with the other connective (De Morgan) or with a double negation:
    any(c..) = not(all(not c..)), sub(a, b) = all(not b, a), operands reversed, x = not(not x).  The API offers
    union, intersection and negation as free combinators, so every spelling is a legal way for a user (or a
    converter) to write the region.  Sizes (rb) must be taken from the original spelling: a negation is unbounded
    on its own.  NOT generated: a union with a negated operand (all(c..) = not(any(not c..)), sub = not(any(not a, b))):
    BoundingZone::calc_union is unsound there -- extension check X06, known findings F-BZ-2 / F-BZ-2u (the
    volume's bounding box loses part of the volume; 4 of 30 such scenes disagree on the unchanged tree)."""
    rng = g.rng
    k = o["k"]
    if k == "tf":
        return {"k": "tf", "t": o["t"], "c": respell(g, o["c"], p)}
    if k in ("any", "all"):
        kids = [respell(g, c, p) for c in o["c"]]
        r = rng.random()
        if r < p and k == "any":
            g.count("spell:demorgan_any")
            g.count("op:not")
            return neg({"k": "all", "c": [neg(c) for c in kids]})
        if r < p + 0.1:
            g.count("spell:reversed_" + k)
            return {"k": k, "c": kids[::-1]}
        return {"k": k, "c": kids}
    if k == "sub":
        a, b = respell(g, o["a"], p), respell(g, o["b"], p)
        r = rng.random()
        if r < p:
            g.count("spell:sub_as_all_not_first")
            g.count("op:not")
            return {"k": "all", "c": [neg(b), a]}
        return {"k": "sub", "a": a, "b": b}
    if k == "not":
        return neg(respell(g, o["c"], p))
    if k == "rdv":
        return {"k": "rdv", "c": [[c[0], respell(g, c[1], p)] for c in o["c"]]}
    if rng.random() < p / 6:
        g.count("spell:double_negation")
        g.count("op:not")
        return neg(neg(o))
    return o


def rb(o):
    """Conservative integer radius of a ball about the local origin containing the object
    (None = unbounded).  Used only to size boundaries / keep daughters apart."""
    k = o["k"]
    sq = isqrt_ceil
    if k == "box":
        return sq(sum(h * h for h in o["h"]))
    if k == "sphere":
        return o["r"]
    if k == "cyl":
        return sq(o["r"] ** 2 + o["hh"] ** 2)
    if k == "cone":
        return sq(max(o["rlo"], o["rhi"]) ** 2 + o["hh"] ** 2)
    if k == "ell":
        return max(o["r"])
    if k == "prism4":
        return sq(2 * o["a"] ** 2 + o["hh"] ** 2)
    if k == "trd":
        return sq(max(o["lo"][0], o["hi"][0]) ** 2 + max(o["lo"][1], o["hi"][1]) ** 2 + o["hh"] ** 2)
    if k == "genprism":
        return sq(max(p[0] ** 2 + p[1] ** 2 for p in o["lo"] + o["hi"]) + o["hh"] ** 2)
    if k == "solid":
        return rb(o["out"])
    if k == "polycone":
        return sq(max(o["ro"]) ** 2 + max(abs(z) for z in o["z"]) ** 2)
    if k == "polyprism4":
        return sq(2 * max(o["ro"]) ** 2 + max(abs(z) for z in o["z"]) ** 2)
    if k == "wedge" or k == "not":
        return None
    if k == "tf":
        r = rb(o["c"])
        return None if r is None else r + sq(sum(t * t for t in o["t"]["t"]))
    if k == "any":
        rs = [rb(c) for c in o["c"]]
        return None if any(r is None for r in rs) else max(rs)
    if k == "all":
        rs = [r for r in (rb(c) for c in o["c"]) if r is not None]
        return min(rs) if rs else None
    if k == "sub":
        return rb(o["a"])
    if k == "rdv":
        rs = [r for r in (rb(c[1]) for c in o["c"] if c[0] == "in") if r is not None]
        return min(rs) if rs else None
    raise ValueError(k)


def place(o, t):
    return {"k": "tf", "t": t, "c": o}


def tr(t):
    return {"m": IDENT, "den": 1, "t": list(t)}


def norm2(t):
    return isqrt_ceil(sum(x * x for x in t))


def masked(g, obj, ins, outs):
    """obj, intersected with `ins`, minus the union of `outs`, through one of the public spellings
    (make_rdv, or AllObjects + make_subtraction + AnyObjects)."""
    rng = g.rng
    if not ins and not outs:
        return obj
    if rng.random() < 0.5:
        g.count("op:rdv")
        return {"k": "rdv", "c": [["in", obj]] + [["in", x] for x in ins] + [["out", x] for x in outs]}
    a = obj
    if ins:
        g.count("op:all")
        a = {"k": "all", "c": [obj] + list(ins)}
    if not outs:
        return a
    g.count("op:sub")
    if len(outs) > 1:
        g.count("op:any")
    return {"k": "sub", "a": a, "b": outs[0] if len(outs) == 1 else {"k": "any", "c": list(outs)}}


def inner_extent(b):
    """r such that the ball of radius r about the origin lies inside the (simple) boundary b."""
    k = b["k"]
    if k == "box":
        return min(b["h"])
    if k == "sphere":
        return b["r"]
    if k == "cyl":
        return min(b["r"], b["hh"])
    if k == "prism4":
        return min(b["a"], b["hh"])
    return 0


def outer_extent(b):
    k = b["k"]
    if k == "box":
        return max(b["h"])
    if k == "sphere":
        return b["r"]
    if k == "cyl":
        return max(b["r"], b["hh"])
    if k == "prism4":
        return max(b["a"], b["hh"])
    return rb(b)


def simple_boundary(g, lo, hi, kinds=("box", "box", "cyl", "sphere", "prism4")):
    kind = g.rng.choice(kinds)
    s = lambda: g.ri(lo, hi)
    if kind == "box":
        return {"k": "box", "h": [s(), s(), s()]}
    if kind == "cyl":
        return {"k": "cyl", "r": s(), "hh": s()}
    if kind == "sphere":
        return {"k": "sphere", "r": s()}
    return {"k": "prism4", "a": s(), "hh": s()}


class Placed:
    """An object placed in a unit: obj (in the unit's frame, stored once in the unit's `objs` and
    shared by reference {"k":"ref","i":index}), a ball (c, r) containing it."""
    def __init__(self, u, obj, c, r):
        u["objs"].append(obj)
        self.obj, self.c, self.r = obj, c, r
        self.ref = {"k": "ref", "i": len(u["objs"])}

    def meets(self, other):
        return math.dist(self.c, other.c) < self.r + other.r


def fill_unit(g, u, claimed, nmat, depth, spread, global_unit, pyth_ok=True):
    """Materials of a unit: objects at random places; `priority` units subtract everything placed
    earlier (daughters first), the others leave overlaps to be classified by the spec."""
    rng = g.rng
    b = u["boundary"]
    priority = rng.random() < 0.8
    u["priority"] = priority
    for j in range(nmat):
        s = g.obj(depth, pyth_ok)
        c = [g.ri(-spread, spread) for _ in range(3)]
        t = g.tf(0, pyth_ok and not has_pyth(s))
        t["t"] = c
        radius = rb(s)
        if g.respell_p:
            s = respell(g, s, g.respell_p)
        p = Placed(u, place(s, t), c, radius)
        # the global unit's exterior is a volume like any other: keep materials inside the boundary
        ins = [{"k": "ref", "i": 1}] if global_unit and norm2(c) + p.r >= inner_extent(b) else []
        outs = [q.ref for q in claimed if q.meets(p)] if priority else []
        u["materials"].append({"label": "%s.m%d" % (u["name"], j), "obj": masked(g, p.ref, ins, outs)})
        claimed.append(p)
    if u["bz"] == "exterior" or rng.random() < 0.5:
        u["bg"] = u["name"] + ".bg"
    else:   # explicit style: the rest of the boundary is a material
        g.count("op:rdv")
        u["materials"].append({"label": u["name"] + ".rest",
                               "obj": {"k": "rdv", "c": [["in", {"k": "ref", "i": 1}]] + [["out", q.ref] for q in claimed]}})


def daughter_unit(g, name, depth, units, nested, pyth_ok):
    """A daughter unit: boundary, optional nested daughter (strictly inside), 1-3 materials that may
    stick out of the boundary (implicitly truncated by the placement), background or covering material."""
    rng = g.rng
    if nested:
        b = simple_boundary(g, 5, 6)
    else:
        r = rng.random()
        if r < 0.75:
            b = simple_boundary(g, 3, 6)
        elif r < 0.88:
            b = {"k": "cone", "rlo": g.ri(2, 6), "rhi": g.ri(2, 6), "hh": g.ri(3, 6)}
            if b["rlo"] == b["rhi"]:
                b["rhi"] += 1
        else:
            hh = g.ri(3, 6)
            b = {"k": "solid", "out": {"k": "cyl", "r": g.ri(4, 6), "hh": hh},
                 "inn": {"k": "cyl", "r": g.ri(1, 2), "hh": hh}, "ea": []}
    g.count("boundary:" + (b["k"] if b["k"] != "solid" else "hollowcyl"))
    idx = len(units)
    u = {"name": name, "boundary": b, "bz": rng.choice(["exterior", "media"]), "bg": "",
         "objs": [b], "daughters": [], "materials": []}
    units.append(u)
    claimed = []
    if nested:
        sub = len(units)
        nb = simple_boundary(g, 1, 2, ("box", "cyl", "sphere"))
        g.count("boundary:" + nb["k"])
        nu = {"name": name + "n", "boundary": nb, "bz": rng.choice(["exterior", "media"]), "bg": "",
              "objs": [nb], "daughters": [], "materials": []}
        units.append(nu)
        fill_unit(g, nu, [], g.ri(1, 2), 1, 1, False, pyth_ok)
        t = g.tf(0, False, force_rot=rng.random() < 0.6)
        t["t"] = [g.ri(-1, 1) for _ in range(3)]
        while rb(nb) + norm2(t["t"]) >= inner_extent(b):      # keep the nested daughter strictly inside
            t["t"][g.ri(0, 2)] = 0
            if t["t"] == [0, 0, 0] and rb(nb) >= inner_extent(b):
                nb.clear()
                nb.update({"k": "sphere", "r": 2})
        u["daughters"].append({"unit": sub, "tf": t})
        claimed.append(Placed(u, place(nb, t), t["t"], rb(nb)))
    fill_unit(g, u, claimed, g.ri(1, 3), depth, 3, False, pyth_ok)
    return idx


def random_scene(seed, sid, grid_n=9, depth=3):
    g = Gen(seed)
    rng = g.rng
    # g.respell_p stays 0: respelling whole random trees met an unexplained disagreement on the unchanged tree
    # (a difference whose subtrahend is a union of five shared objects, one operand a De Morgan-spelled union,
    # loses part of the volume; every reduced variant agrees) -- to be understood before it is switched on.
    # The directed demorgan_gallery below covers the spellings one at a time.
    u0 = {"name": "u0", "boundary": None, "bz": rng.choice(["exterior", "media"]), "bg": "",
          "objs": [None], "daughters": [], "materials": []}
    units = [u0]
    claimed = []
    daughters = u0["daughters"]
    r = rng.random()
    ndaughter = 1 if r < 0.45 else 2 if r < 0.6 else 0
    for di in range(ndaughter):
        t = g.tf(0, True, force_rot=rng.random() < 0.7)
        idx = daughter_unit(g, "d%d" % di, max(1, depth - 1), units, di == 0 and rng.random() < 0.4, t["den"] == 1)
        rad = rb(units[idx]["boundary"])
        for attempt in range(60):
            c = [g.ri(-6, 6) for _ in range(3)]
            if all(math.dist(c, q.c) > rad + q.r + 1 for q in claimed):
                break
        else:
            del units[idx:]
            break
        t["t"] = c
        daughters.append({"unit": idx, "tf": t})
        claimed.append(Placed(u0, place(units[idx]["boundary"], t), c, rad))
    need = max([norm2(q.c) + q.r + 1 for q in claimed] + [0])
    size = max(g.ri(8, 11), need)
    b = simple_boundary(g, size, size + 2)
    g.count("boundary:" + b["k"])
    u0["boundary"] = b
    u0["objs"][0] = b
    fill_unit(g, u0, claimed, g.ri(1, 6) if daughters else g.ri(2, 6), depth, size - 3, True)
    balls = [(q.c, q.r) for q in claimed]
    if daughters and rng.random() < 0.6:   # concentrate the probes on the daughters' neighbourhood
        balls = [(q.c, q.r + 2) for q in claimed[:len(daughters)]]
    return finish_scene(g, sid, seed, "random", units, grid_n, balls)


def finish_scene(g, sid, seed, family, units, grid_n, balls, margin=2):
    # the grid starts just inside the boundary's bounding box and ends just outside it
    b = units[0]["boundary"]
    ext3 = {"box": lambda: list(b["h"]), "sphere": lambda: [b["r"]] * 3, "cyl": lambda: [b["r"], b["r"], b["hh"]],
            "prism4": lambda: [b["a"], b["a"], b["hh"]]}[b["k"]]()
    # ... restricted to the bounding box of the placed objects' balls (where things happen)
    lo3 = [max(-ext3[i] - 1, min(c[i] - r for c, r in balls)) for i in range(3)]
    hi3 = [min(ext3[i] + 1, max(c[i] + r for c, r in balls)) for i in range(3)]
    step = [max(1, (hi3[i] - lo3[i]) // (grid_n - 1)) for i in range(3)]      # per axis; the grid stays inside
    lo = [lo3[i] + g.ri(0, max(0, (hi3[i] - lo3[i]) - step[i] * (grid_n - 1))) for i in range(3)]
    scale = SCALE
    assert all(max(abs(lo[i]), abs(lo[i] + step[i] * (grid_n - 1))) + 1 < scale // 2 for i in range(3)), (lo, step)
    return {"id": sid, "seed": seed, "family": family,
            "tolrel": 8, "length": 1, "margin": margin, "scale": scale, "tolinv": 10 ** 8 // (margin * scale),
            "grid": {"lo": lo, "step": step, "n": grid_n, "off": [int(g.rng.random() < 0.85) for _ in range(3)]},
            "units": units, "kinds": g.kinds}


# ------------------------------------------------------------------ near-coincident family
def adjacent_scene(seed, sid, grid_n=9):
    """Units whose volumes share surfaces exactly (rows of boxes, concentric shells, stacked
    cylinders, a daughter flush with its neighbours): the input of the soft de-duplication."""
    g = Gen(seed)
    rng = g.rng
    mats = []
    daughters = []
    units = [None]
    mode = rng.choice(["row", "shells", "stack", "flush"])
    if mode == "row":
        ax = g.ri(0, 2)
        side = [g.ri(2, 6), g.ri(2, 6), g.ri(2, 6)]
        x = -g.ri(5, 9)
        for j in range(g.ri(2, 5)):
            a = g.ri(1, 3)
            h = list(side)
            h[ax] = a
            t = [0, 0, 0]
            t[ax] = x + a
            x += 2 * a
            g.count("box")
            mats.append({"label": "u0.m%d" % j, "obj": place({"k": "box", "h": h}, tr(t))})
    elif mode == "shells":
        kind = rng.choice(["sphere", "cyl", "prism4"])
        r = g.ri(2, 3)
        hh = g.ri(3, 8)
        mk = lambda rad: ({"k": "sphere", "r": rad} if kind == "sphere" else
                          {"k": "cyl", "r": rad, "hh": hh} if kind == "cyl" else {"k": "prism4", "a": rad, "hh": hh})
        t = [g.ri(-3, 3), g.ri(-3, 3), g.ri(-3, 3)]
        g.count(kind)
        mats.append({"label": "u0.m0", "obj": place(mk(r), tr(t))})
        for j in range(1, g.ri(2, 4)):
            r2 = r + g.ri(1, 3)
            g.count("solid:" + kind)
            mats.append({"label": "u0.m%d" % j, "obj": place({"k": "solid", "out": mk(r2), "inn": mk(r), "ea": []}, tr(t))})
            r = r2
    elif mode == "stack":
        r = g.ri(2, 6)
        z = -g.ri(5, 9)
        for j in range(g.ri(2, 4)):
            hh = g.ri(1, 4)
            g.count("cyl")
            mats.append({"label": "u0.m%d" % j, "obj": place({"k": "cyl", "r": r, "hh": hh}, tr([0, 0, z + hh]))})
            z += 2 * hh
    else:  # a daughter box flush between two material boxes; its materials touch its boundary
        h = [g.ri(3, 5), g.ri(3, 5), g.ri(3, 5)]
        du = {"name": "d0", "boundary": {"k": "box", "h": h}, "bz": "exterior", "bg": "d0.bg",
              "objs": [{"k": "box", "h": h}], "daughters": [],
              "materials": [
                  # a lid z in (h2-2, h2) and a cylinder z in (-h2, h2-2)
                  {"label": "d0.m0", "obj": place({"k": "box", "h": [h[0], h[1], 1]}, tr([0, 0, h[2] - 1]))},
                  {"label": "d0.m1", "obj": place({"k": "cyl", "r": min(h[0], h[1]) - 1, "hh": h[2] - 1}, tr([0, 0, -1]))}]}
        units.append(du)
        c = [g.ri(-4, 4), g.ri(-4, 4), g.ri(-4, 4)]
        daughters.append({"unit": 1, "tf": tr(c)})
        g.count("box")
        g.count("cyl")
        for j, sgn in enumerate((-1, 1)):
            a = g.ri(1, 4)
            t = list(c)
            t[0] = c[0] + sgn * (h[0] + a)
            g.count("box")
            mats.append({"label": "u0.m%d" % j, "obj": place({"k": "box", "h": [a, h[1], h[2]]}, tr(t))})
    size = max(rb(m["obj"]) for m in mats) + 2
    if daughters:
        size = max(size, rb(place(units[1]["boundary"], daughters[0]["tf"])) + 2)
    b = {"k": "box", "h": [size, size, size]}
    units[0] = {"name": "u0", "boundary": b, "bz": "exterior", "bg": "u0.bg", "objs": [b], "daughters": daughters,
                "materials": mats}
    balls = [(m["obj"]["t"]["t"], rb(m["obj"]["c"])) for m in mats]
    if daughters:
        balls.append((daughters[0]["tf"]["t"], rb(units[1]["boundary"])))
    return finish_scene(g, sid, seed, "adjacent:" + mode, units, grid_n, balls)


# ------------------------------------------------------------------ second pass: perturbation
EPS_PARAMS = {"box": 3, "sphere": 1, "cyl": 2, "cone": 3, "ell": 3, "prism4": 2}


def perturb(scene, seed):
    """Copy of a scene with tolerance-sized offsets: leaf parameters (`eps`, canonical order
    h | r | r,hh | rlo,rhi,hh | r[3] | a,hh) and translations (`et`) in units of HALF an
    effective tolerance: +-1 (0.5 tol: must still merge) and +-4 (2 tol: must stay apart)."""
    rng = random.Random(seed)
    sc = json.loads(json.dumps(scene))
    n = [0]

    def pick():
        return rng.choice([-4, -1, 1, 4])

    def walk(o, in_solid=False):
        k = o["k"]
        if k in EPS_PARAMS:
            if rng.random() < 0.5:
                e = [pick() if rng.random() < 0.6 else 0 for _ in range(EPS_PARAMS[k])]
                if k == "cone":   # a zero radius stays exactly zero
                    e[0] = 0 if o["rlo"] == 0 else e[0]
                    e[1] = 0 if o["rhi"] == 0 else e[1]
                o["eps"] = e
                n[0] += sum(1 for x in e if x)
        elif k == "tf":
            if rng.random() < 0.5:
                o["t"]["et"] = [pick() if rng.random() < 0.6 else 0 for _ in range(3)]
                n[0] += sum(1 for x in o["t"]["et"] if x)
            walk(o["c"])
        elif k in ("any", "all"):
            for c in o["c"]:
                walk(c)
        elif k == "rdv":
            for c in o["c"]:
                walk(c[1])
        elif k == "not":
            walk(o["c"])
        elif k == "sub":
            walk(o["a"])
            walk(o["b"])

    for u in sc["units"]:
        for o in u["objs"][1:]:
            walk(o)
        for m in u["materials"]:
            walk(m["obj"])
    sc["perturbed"] = n[0]
    sc["family"] = sc["family"] + "+eps"
    sc["margin"] = 8
    sc["tolinv"] = 10 ** 8 // (8 * SCALE)
    sc["seed"] = seed
    return sc


# ------------------------------------------------------------------ generalised-prism gallery
GP_TEMPLATES = {   # strictly convex, counterclockwise
    3: [(-4, -3), (4, -2), (0, 4)],
    4: [(-4, -3), (3, -4), (4, 3), (-3, 4)],
    5: [(-4, -2), (0, -4), (4, -1), (3, 4), (-2, 4)],
    6: [(-4, 0), (-2, -4), (2, -4), (4, 0), (2, 4), (-2, 4)],
}
GP_SHAPES = ("lo_point", "lo_line", "hi_point", "hi_line", "skew", "taper", "twisted")


def section_at(lo, hi, t):
    return [(Fraction(a[0]) * (1 - t) + Fraction(b[0]) * t, Fraction(a[1]) * (1 - t) + Fraction(b[1]) * t)
            for a, b in zip(lo, hi)]


def gallery_ok(lo, hi):
    """Documented preconditions of GenPrism for counterclockwise input, degenerate faces allowed (a face may
    collapse to a point or to a segment; unit tests tetrahedron / odd_tetrahedron / envelope): every
    cross-section strictly between the faces is a strictly convex counterclockwise polygon, at least one
    face has positive area, no side is twisted by a quarter turn or more, no vertex pair coincides on both
    faces."""
    n = len(lo)
    if n < 3 or len(hi) != n:
        return False
    area = lambda p: sum(cross(p[i], p[(i + 1) % n]) for i in range(n))
    if area(lo) < 0 or area(hi) < 0 or (area(lo) == 0 and area(hi) == 0):
        return False
    for i in range(n):
        j = (i + 1) % n
        if lo[i] == lo[j] and hi[i] == hi[j]:
            return False
        el, eh = sub2(lo[j], lo[i]), sub2(hi[j], hi[i])
        if el != (0, 0) and eh != (0, 0) and el[0] * eh[0] + el[1] * eh[1] <= 0:
            return False
    for t in (Fraction(1, 64), Fraction(1, 8), Fraction(1, 2), Fraction(7, 8), Fraction(63, 64)):
        if not strictly_convex_ccw(section_at(lo, hi, t)):
            return False
    # corners: q(t) = cross(e_ij(t), e_jk(t)) is a quadratic; positive at the samples, check its vertex too
    for i in range(n):
        j, k = (i + 1) % n, (i + 2) % n
        el, eh = sub2(lo[j], lo[i]), sub2(hi[j], hi[i])
        fl, fh = sub2(lo[k], lo[j]), sub2(hi[k], hi[j])
        d1, d2 = sub2(eh, el), sub2(fh, fl)
        c0, c1, c2 = cross(el, fl), cross(el, d2) + cross(d1, fl), cross(d1, d2)
        if c2 != 0:
            tv = Fraction(-c1, 2 * c2)
            if 0 < tv < 1 and c0 + c1 * tv + c2 * tv * tv <= 0:
                return False
    return True


def gallery_prism(rng, shape, n):
    """One generalised prism of the given class (counterclockwise), from an integer template."""
    T = list(GP_TEMPLATES[n])
    # a random symmetry of the square keeps it integer; restore the counterclockwise order after a reflection
    m = rng.choice([((1, 0), (0, 1)), ((0, -1), (1, 0)), ((-1, 0), (0, -1)), ((0, 1), (-1, 0)),
                    ((-1, 0), (0, 1)), ((1, 0), (0, -1)), ((0, 1), (1, 0)), ((0, -1), (-1, 0))])
    T = [(m[0][0] * x + m[0][1] * y, m[1][0] * x + m[1][1] * y) for x, y in T]
    if m[0][0] * m[1][1] - m[0][1] * m[1][0] < 0:
        T = T[::-1]
    c, d = rng.randint(-2, 2), rng.randint(-2, 2)
    for _ in range(200):
        if shape in ("lo_point", "hi_point"):
            other = [(c, d)] * n
        elif shape in ("lo_line", "hi_line"):
            # the face collapses onto a line: squash the template along y or along x
            other = [(x + c, d) for x, y in T] if rng.random() < 0.5 else [(c, y + d) for x, y in T]
        elif shape == "skew":
            other = [(x + c, y + d) for x, y in T]
        elif shape == "taper":
            other = [(x - (x > 0) + (x < 0), y - (y > 0) + (y < 0)) for x, y in T]
        else:  # twisted: independent small displacements
            other = [(x + rng.randint(-2, 2), y + rng.randint(-2, 2)) for x, y in T]
        lo, hi = (other, T) if shape.startswith("lo_") or shape in ("twisted",) else (T, other)
        if shape in ("skew", "taper") and rng.random() < 0.5:
            lo, hi = hi, lo
        if gallery_ok(lo, hi):
            if shape != "twisted" or any(cross(sub2(lo[(i + 1) % n], lo[i]), sub2(hi[(i + 1) % n], hi[i])) != 0 for i in range(n)):
                return lo, hi
        c, d = rng.randint(-2, 2), rng.randint(-2, 2)
    raise AssertionError("no valid %s prism with %d sides" % (shape, n))


def genprism_gallery(seed, first_id, grid_n=9):
    """EVERY run: generalised prisms whose -z / +z face degenerates to a point / to a line, skewed, tapered and
    twisted ones, each with 3, 4, 5 and 6 sides and in BOTH vertex windings (counterclockwise, and clockwise =
    the Geant4 G4GenericTrap convention), with a random start vertex; one per scene, half of them under a
    signed permutation."""
    rng = random.Random(seed * 7919 + 13)
    scenes = []
    for shape in GP_SHAPES:
        for n in (3, 4, 5, 6):
            for winding in ("ccw", "cw"):
                sid = first_id + len(scenes)
                g = Gen(seed * 1009 + sid)
                lo, hi = gallery_prism(rng, shape, n)
                if winding == "cw":
                    lo, hi = lo[::-1], hi[::-1]
                k = rng.randint(0, n - 1)
                lo, hi = lo[k:] + lo[:k], hi[k:] + hi[:k]
                o = {"k": "genprism", "hh": rng.randint(2, 5), "lo": [list(p) for p in lo], "hi": [list(p) for p in hi]}
                g.count("genprism")
                g.count("gallery:%s:%s:%d" % (shape, winding, n))
                t = {"m": rng.choice(SIGNED_PERMS) if rng.random() < 0.5 else IDENT, "den": 1,
                     "t": [rng.randint(-1, 1) for _ in range(3)]}
                b = {"k": "box", "h": [10, 10, 10]}
                u0 = {"name": "u0", "boundary": b, "bz": "exterior", "bg": "u0.bg", "objs": [b, place(o, t)],
                      "daughters": [], "materials": [{"label": "u0.m0", "obj": {"k": "ref", "i": 2}}]}
                scenes.append(finish_scene(g, sid, seed, "gallery:" + shape, [u0], grid_n, [(t["t"], max(rb(o) + 1, 8))]))
    return scenes


# ------------------------------------------------------------------ De Morgan spellings, replicas
def _one_unit_scene(g, sid, seed, family, mats, balls, grid_n, size=12, bz="exterior"):
    b = {"k": "box", "h": [size, size, size]}
    u0 = {"name": "u0", "boundary": b, "bz": bz, "bg": "u0.bg", "objs": [b], "daughters": [],
          "materials": [{"label": "u0.m%d" % j, "obj": o} for j, o in enumerate(mats)]}
    return finish_scene(g, sid, seed, family, [u0], grid_n, balls)


DM_SPELLINGS = ("not_all_not_not", "not_not", "all_not_not_plain", "any_plain_all_not", "not_all_plain_not")


def demorgan_gallery(seed, first_id, grid_n=9):
    """EVERY run: ways of writing a union / difference of two solids A, B (and a large box C) with the OTHER
    connective and negations, negated operands first; A and B disjoint, overlapping or nested, of different sizes,
    under a signed permutation half of the time.  (No union with a negated operand: see respell.)"""
    rng = random.Random(seed * 6007 + 3)
    scenes = []
    for spell in DM_SPELLINGS:
        for rel in ("disjoint", "overlap", "nested"):
            sid = first_id + len(scenes)
            g = Gen(seed * 1013 + sid)
            g.rng = rng
            ka, kb = rng.sample(["box", "sphere", "cyl", "cone", "ell", "prism4", "trd"], 2)
            a, b = g.prim(ka), g.prim(kb)
            ra, rbb = rb(a), rb(b)
            ax = rng.randrange(3)
            sep = {"disjoint": ra + rbb + 1, "overlap": max(1, (ra + rbb) // 3), "nested": 0}[rel]
            if rel == "nested":      # B well inside A where possible: shrink B
                b = {"k": "sphere", "r": 1} if ra < 4 else {"k": "box", "h": [1, 1, 2]}
                rbb = rb(b)
            ca = [rng.randint(-1, 1) for _ in range(3)]
            cb = list(ca)
            cb[ax] += sep if rng.random() < 0.5 else -sep
            ta = {"m": rng.choice(SIGNED_PERMS) if rng.random() < 0.5 else IDENT, "den": 1, "t": ca}
            tb = {"m": rng.choice(SIGNED_PERMS) if rng.random() < 0.5 else IDENT, "den": 1, "t": cb}
            A, B = place(a, ta), place(b, tb)
            ext = max(norm2(ca) + ra, norm2(cb) + rbb) + 1
            C = {"k": "box", "h": [ext, ext, ext]}
            o = {"not_all_not_not": neg({"k": "all", "c": [neg(A), neg(B)]}),                      # A | B
                 "not_not": neg(neg(A)),                                                            # A
                 "all_not_not_plain": {"k": "all", "c": [neg(A), neg(B), C]},                      # C - A - B
                 "any_plain_all_not": {"k": "any", "c": [A, {"k": "all", "c": [neg(A), B]}]},      # A | B
                 "not_all_plain_not": neg({"k": "all", "c": [neg(A), neg(neg(neg(B)))]}),          # A | B
                 }[spell]
            g.count(ka)
            g.count(kb)
            g.count("op:not")
            g.count("spell:gallery:" + spell)
            size = ext + 2
            scenes.append(_one_unit_scene(g, sid, seed, "demorgan:" + spell, [o],
                                          [(ca, ra + 1), (cb, rbb + 1)], grid_n, size=max(size, 8)))
    return scenes


def self_ea(rng):
    return [] if rng.random() < 0.5 else [rng.randint(-2, 5), rng.randint(1, 3)]


REPLICA_KINDS = ("box", "sphere", "cyl", "cone", "ell", "prism4", "trd", "genprism", "solid", "polycone")


def replica_gallery(seed, first_id, grid_n=9):
    """EVERY run: 2-4 copies of ONE solid in one unit at places that differ in a single coordinate, are mirror
    images of each other, or are permutations of each other (equal distance from the origin), each copy its own
    material; with and without a common signed permutation.  Identical surfaces at distinct places are what the
    soft de-duplication must keep apart."""
    rng = random.Random(seed * 4001 + 17)
    scenes = []
    for kind in REPLICA_KINDS:
        for layout in ("axis", "mirror", "permuted"):
            sid = first_id + len(scenes)
            g = Gen(seed * 1019 + sid)
            if kind == "solid":
                o = g.solid()
            elif kind == "polycone":
                o = g.polycone()
            else:
                o = g.prim(kind)
            if kind == "polycone":   # hollow, the cavity tapering to a point at one end of a segment (several segments / one)
                w = rng.randint(0, 1)
                o = {"axis": {"k": "polycone", "z": [-3, 0, 4], "ro": [4, 5, 3 + w], "ri": [0, 2 + w, 1], "ea": []},
                     "mirror": {"k": "polycone", "z": [-4, -1, -1, 3], "ro": [3, 3 + w, 5, 5], "ri": [1 + w, 0, 0, 2], "ea": []},
                     "permuted": {"k": "polycone", "z": [-2, 1, 3], "ro": [4, 5, 5], "ri": [3, 0, 2 + w], "ea": self_ea(rng)}}[layout]
            if kind == "ell":     # spheroids: two equal semi-axes, the odd one along x, y, z in turn (never a sphere)
                a, c = rng.sample(range(2, 6), 2)
                o["r"] = {"axis": [a, a, c], "mirror": [a, c, a], "permuted": [c, a, a]}[layout]
            g.count("replica:%s:%s" % (kind, layout))
            r = rb(o)
            m = rng.choice(SIGNED_PERMS) if rng.random() < 0.6 else IDENT
            d = 2 * r + rng.randint(1, 2)
            if layout == "axis":          # a row along one axis, off the origin in the other two
                ax = rng.randrange(3)
                base = [rng.randint(-2, 2) for _ in range(3)]
                places = []
                for i in range(rng.randint(2, 3)):
                    c = list(base)
                    c[ax] = base[ax] + (i - 1) * d
                    places.append(c)
            elif layout == "mirror":      # +-c along one axis (and along a second one for four copies)
                ax, ay = rng.sample(range(3), 2)
                h = r + rng.randint(1, 2)
                places = []
                four = rng.random() < 0.5
                for sx in (1, -1):
                    for sy in ((1, -1) if four else (1,)):
                        c = [0, 0, 0]
                        c[ax] = sx * h
                        c[ay] = sy * h if four else rng.choice([0, 1])
                        places.append(c)
                if not four:
                    places[1][ay] = places[0][ay]
            else:                         # the same offset along x, along y and along z
                h = (3 * r + 1) // 2 + rng.randint(1, 2)          # h sqrt(2) > 2 r: the copies stay apart
                places = [[h, 0, 0], [0, h, 0], [0, 0, h]][:rng.randint(2, 3)]
                if rng.random() < 0.5:
                    places = [[-v for v in c] for c in places]
            mats = [place(o, {"m": m, "den": 1, "t": c}) for c in places]
            ext = max(norm2(c) for c in places) + r + 2
            scenes.append(_one_unit_scene(g, sid, seed, "replica:" + layout, mats, [(c, r + 1) for c in places], grid_n,
                                          size=max(ext, 8)))
    return scenes


# ------------------------------------------------------------------ oracle-decided family
def _rotation(rng):
    """A general rotation matrix (axis-angle), orthonormal to rounding."""
    while True:
        ax = [rng.gauss(0, 1) for _ in range(3)]
        n = math.sqrt(sum(x * x for x in ax))
        if n > 1e-3:
            break
    x, y, z = (a / n for a in ax)
    th = rng.uniform(0, 2 * math.pi)
    c, s, C = math.cos(th), math.sin(th), 1 - math.cos(th)
    return [[c + x * x * C, x * y * C - z * s, x * z * C + y * s],
            [y * x * C + z * s, c + y * y * C, y * z * C - x * s],
            [z * x * C - y * s, z * y * C + x * s, c + z * z * C]]


def oracle_scene(seed, sid, grid_n=9, traps_only=False):
    """NOT in the lattice vocabulary (real-valued parameters, irrational angles, general rotations):
    regular prisms with n sides and any orientation, parallelepipeds.  Decided by analytic membership
    functions in the harness (written from the documented definitions) -- labelled oracle-decided."""
    g = Gen(seed)
    rng = g.rng
    size = g.ri(10, 13)
    b = {"k": "box", "h": [size, size, size]}
    mats, balls = [], []
    for j in range(1 if traps_only else g.ri(2, 5)):     # traps_only: one trapezoid, the probe grid dense around it
        r0 = 0.0 if traps_only else rng.random()
        if r0 < 0.3:
            o, rad = _oracle_trap(rng)
            kind = "oracle:trap"
        elif r0 < 0.65:
            n = rng.choice([3, 5, 6, 7, 8, 4])
            a, hh = round(rng.uniform(1.5, 4), 3), round(rng.uniform(1.5, 4), 3)
            o = {"k": "oprism", "n": n, "a": a, "hh": hh, "ori": rng.choice([0.0, 0.5, round(rng.random() * 0.999, 3)])}
            rad = math.hypot(a / math.cos(math.pi / n), hh)
            kind = "oracle:prism%d" % n
        else:
            h = [round(rng.uniform(1.5, 4), 3) for _ in range(3)]
            o = {"k": "ppiped", "h": h, "alpha": rng.choice([0.0, round(rng.uniform(-0.15, 0.15), 3)]),
                 "theta": rng.choice([0.0, round(rng.uniform(0.0, 0.12), 3)]), "phi": round(rng.random() * 0.999, 3)}
            ta, tt = math.tan(2 * math.pi * o["alpha"]), math.tan(2 * math.pi * o["theta"])
            rad = math.sqrt((h[0] + h[1] * abs(ta) + h[2] * tt) ** 2 + (h[1] + h[2] * tt) ** 2 + h[2] ** 2)
            kind = "oracle:parallelepiped"
        for _ in range(40):
            lim = size - rad - 0.5
            if lim <= 0:
                break
            t = [round(rng.uniform(-lim, lim), 3) for _ in range(3)]
            if all(math.dist(t, c) > rad + r + 0.1 for c, r in balls):
                balls.append((t, rad))
                g.count(kind)
                mats.append({"label": "u0.m%d" % len(mats),
                             "obj": {"k": "otf", "R": _rotation(rng) if rng.random() < 0.8 else IDENT_F, "t": t, "c": o}})
                break
    units = [{"name": "u0", "boundary": b, "bz": "exterior", "bg": "u0.bg", "objs": [b], "daughters": [], "materials": mats}]
    s = finish_scene(g, sid, seed, "oracle", units, grid_n, [([int(c[0]), int(c[1]), int(c[2])], int(r) + 1) for c, r in balls])
    s["oracle"] = 1
    return s


IDENT_F = [[1.0, 0.0, 0.0], [0.0, 1.0, 0.0], [0.0, 0.0, 1.0]]


def _oracle_trap(rng):
    """General trapezoid for GenPrism::from_trap (G4Trap parameters): polar / azimuthal angle of the axis, and per face
    the y half-width, the x half-lengths at -hy and +hy and the shear angle alpha.  Classes: right (theta = 0),
    oblique, sheared with equal alphas (planar sides), sheared with different alphas / half-widths per face (twisted
    sides, still less than a quarter turn), and negative alpha."""
    u = lambda a, b: round(rng.uniform(a, b), 3)
    hz = u(1.5, 3.5)
    theta = rng.choice([0.0, u(0.01, 0.1)])
    phi = rng.choice([0.0, 0.25, u(0.0, 0.999)])
    cls = rng.choice(["plain", "shear_same", "shear_diff", "shear_neg"])
    a_lo = {"plain": 0.0, "shear_same": u(0.02, 0.09), "shear_diff": u(0.02, 0.09), "shear_neg": -u(0.02, 0.09)}[cls]
    a_hi = a_lo if cls != "shear_diff" else rng.choice([0.0, u(0.0, 0.06), -u(0.0, 0.04)])
    lo = {"hy": u(1.2, 3.0), "hx_lo": u(1.2, 3.0), "hx_hi": u(1.2, 3.0), "alpha": a_lo}
    hi = {"hy": u(1.2, 3.0), "hx_lo": u(1.2, 3.0), "hx_hi": u(1.2, 3.0), "alpha": a_hi}
    if cls == "shear_same" and rng.random() < 0.5:      # same proportions on both faces: planar sides
        f = u(0.6, 1.4)
        hi = {"hy": round(lo["hy"] * f, 3), "hx_lo": round(lo["hx_lo"] * f, 3), "hx_hi": round(lo["hx_hi"] * f, 3), "alpha": a_lo}
    o = {"k": "otrap", "hz": hz, "theta": theta, "phi": phi, "lo": lo, "hi": hi}
    tt = math.tan(2 * math.pi * theta)
    ext = 0.0
    for f in (lo, hi):
        sh = abs(f["hy"] * math.tan(2 * math.pi * f["alpha"]))
        ext = max(ext, math.hypot(hz * tt + sh + max(f["hx_lo"], f["hx_hi"]), hz * tt + f["hy"]))
    return o, math.hypot(ext, hz)


# ------------------------------------------------------------------ rectangular arrays (C19)
def _array(origin_cell, n, w, rng, kinds="CT", subs=None):
    """grid with n[ax] cells of width w[ax]; the lower corner of cell `origin_cell` is the frame origin."""
    grid = [[float((i - origin_cell[ax]) * w[ax]) for i in range(n[ax] + 1)] for ax in range(3)]
    cells = []
    for i in range(n[0]):
        for j in range(n[1]):
            for k in range(n[2]):
                if (i, j, k) == tuple(origin_cell):
                    cells.append(["C"])                      # corner-anchored at the origin: zero offset
                elif subs and rng.random() < 0.5:
                    cells.append(["A", rng.choice(subs)])
                else:
                    cells.append([rng.choice(kinds)])
    return {"grid": grid, "cells": cells}


def _array_input(name, arrays, rng, place=None):
    ext = max(max(abs(v) for v in ax) for ax in arrays[0]["grid"])
    place = place if place is not None else [float(rng.randint(-2, 2)) for _ in range(3)]
    half = float(ext + 4)
    return {"name": name, "arrays": arrays, "place": place, "world": [half, half, half + 1]}


def array_inputs(seed):
    """Specs of hand-constructed OrangeInput values (harness/vbuild.cc ArrayInputBuilder): a global unit holding a
    rectangular array of 1-3 cells per axis whose frame origin sits at the lower corner of EVERY cell in turn (so
    the daughter with zero offset = NoTransformation appears at every flattened index, among Translation
    daughters), centred variants, nested arrays, and seeded random ones."""
    rng = random.Random(seed * 104729 + 7)
    out = []
    shapes = [(1, 1, 1), (2, 1, 1), (1, 3, 1), (1, 1, 2), (2, 2, 1), (3, 1, 2), (2, 2, 2), (3, 3, 1), (3, 2, 2)]
    for n in shapes:
        w = [rng.choice([2, 3, 4]) for _ in range(3)]
        for i in range(n[0]):
            for j in range(n[1]):
                for k in range(n[2]):
                    a = _array((i, j, k), n, w, rng)
                    out.append(_array_input("array%dx%dx%d_origin%d%d%d" % (n + (i, j, k)), [a], rng,
                                            place=[0.0, 0.0, 0.0] if rng.random() < 0.3 else None))
    # grids straddling the origin: a centred daughter in the centre cell has zero offset
    for n in [(1, 1, 1), (3, 1, 1), (3, 3, 1), (1, 3, 3)]:
        w = [rng.choice([2, 4]) for _ in range(3)]
        grid = [[float(i * w[ax] - n[ax] * w[ax] / 2) for i in range(n[ax] + 1)] for ax in range(3)]
        cells = [["T"] if rng.random() < 0.7 else ["C"] for _ in range(n[0] * n[1] * n[2])]
        cells[len(cells) // 2] = ["T"]
        out.append(_array_input("array%dx%dx%d_centred" % n, [{"grid": grid, "cells": cells}], rng))
    # nested arrays: the outer cells hold inner arrays (re-centred so that zero offsets occur at both levels)
    for t in range(6):
        wi = [rng.choice([1, 2]) for _ in range(3)]
        ni = (rng.randint(1, 2), rng.randint(1, 2), rng.randint(1, 2))
        no = (rng.randint(1, 3), rng.randint(1, 2), 1)
        inner = []
        for q in range(2):
            oc = (rng.randrange(ni[0]), rng.randrange(ni[1]), rng.randrange(ni[2])) if q else (0, 0, 0)
            inner.append(_array(oc, ni, wi, rng))
        wo = [ni[ax] * wi[ax] for ax in range(3)]
        oc = (rng.randrange(no[0]), rng.randrange(no[1]), 0)
        outer = _array(oc, no, wo, rng, kinds="C", subs=[1, 2])
        # the origin cell of the outer array holds the inner array whose frame starts at its own corner: zero offset
        o_idx = (oc[0] * no[1] + oc[1]) * no[2]
        outer["cells"][o_idx] = ["A", 1]
        others = [c for c in range(len(outer["cells"])) if c != o_idx]
        if others:
            outer["cells"][rng.choice(others)] = ["A", 2]       # every inner array is used
        else:
            inner = inner[:1]
        out.append(_array_input("nested%d" % t, [outer] + inner, rng))
    # seeded random ones
    for t in range(10):
        n = (rng.randint(1, 3), rng.randint(1, 3), rng.randint(1, 3))
        w = [rng.choice([1, 2, 3, 5]) for _ in range(3)]
        oc = (rng.randrange(n[0]), rng.randrange(n[1]), rng.randrange(n[2]))
        out.append(_array_input("random%d" % t, [_array(oc, n, w, rng)], rng))
    return out


def sample_slabs(scenes, keep, seed):
    """Probe only `keep` of the z-slabs of every scene (always including the middle one)."""
    rng = random.Random(seed)
    for s in scenes:
        n = s["grid"]["n"]
        if keep < n:
            mid = n // 2
            s["grid"]["zs"] = sorted([mid] + rng.sample([i for i in range(n) if i != mid], keep - 1))


def involute_scene(sid):
    """C19 only (not in the lattice vocabulary, never shown to Solids.tla): an involute blade, to
    exercise writing -- and the missing reading -- of involute surfaces (finding F-JSON-1)."""
    g = Gen(sid)
    b = {"k": "box", "h": [6, 6, 3]}
    blade = {"k": "involute", "r": [1.0, 2.0, 4.0], "a": [0.0, 0.44], "left": True, "hh": 1.0}
    units = [{"name": "u0", "boundary": b, "bz": "exterior", "bg": "u0.bg", "objs": [b], "daughters": [],
              "materials": [{"label": "u0.blade", "obj": blade}]}]
    s = finish_scene(g, sid, sid, "involute", units, 3, [([0, 0, 0], 5)])
    return s


def make_scenes(seed, n_random, n_adjacent, n_perturbed, grid_n=9):
    scenes = []
    sid = 0
    for i in range(n_random):
        scenes.append(random_scene(seed * 1000003 + i, sid, grid_n))
        sid += 1
    for i in range(n_adjacent):
        scenes.append(adjacent_scene(seed * 1000003 + 500000 + i, sid, grid_n))
        sid += 1
    base = [s for s in scenes if s["family"].startswith("adjacent")] + scenes[:n_random]
    for i in range(n_perturbed):
        s = perturb(base[i % len(base)], seed * 7 + i)
        s["id"] = sid
        s["base"] = base[i % len(base)]["id"]
        scenes.append(s)
        sid += 1
    return scenes


if __name__ == "__main__":
    import sys
    seed = int(sys.argv[1]) if len(sys.argv) > 1 else 1
    for s in make_scenes(seed, 3, 2, 2):
        print(json.dumps(s, separators=(",", ":")))
