#!/opt/veriftools/pyvenv/bin/python
import json, jsonschema, glob, sys
jsonschema.validate(json.load(open('/verif/MANIFEST.json')), json.load(open('/root/.vp/MANIFEST.schema.json')))
es = json.load(open('/root/.vp/EVIDENCE.schema.json'))
for f in sorted(glob.glob('/verif/evidence/*.json')):
    jsonschema.validate(json.load(open(f)), es)
    print('ok', f)
print('manifest ok')
