#!/opt/veriftools/pyvenv/bin/python
"""Validate MANIFEST.json and every evidence file against the given schemas; exit 1 on any failure."""
import json, jsonschema, glob, sys
bad = 0
try:
    jsonschema.validate(json.load(open('/verif/MANIFEST.json')), json.load(open('/root/.vp/MANIFEST.schema.json')))
    print('manifest ok')
except jsonschema.ValidationError as ex:
    bad += 1
    print('FAIL MANIFEST.json: %s at %s' % (ex.message[:200], list(ex.absolute_path)))
es = json.load(open('/root/.vp/EVIDENCE.schema.json'))
for f in sorted(glob.glob('/verif/evidence/*.json')):
    try:
        jsonschema.validate(json.load(open(f)), es)
        print('ok', f)
    except jsonschema.ValidationError as ex:
        bad += 1
        print('FAIL %s: %s at %s' % (f, ex.message[:200], list(ex.absolute_path)))
sys.exit(1 if bad else 0)
