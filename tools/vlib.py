"""Common machinery for the /verif checks: build, TLC driver, evidence, findings.

Every check is a python module tools/checks/cNN.py exposing run(ctx); bin/check is the
dispatcher.  Conventions (DESIGN.md section 2):
  * a TLC *model failure* (parse error, OOM, timeout) is a broken check (exit 2), never
    a violation;
  * a rejected trace / failed design invariant is a VIOLATION (exit 1) unless it matches
    an entry of known_findings.json (then KNOWN-FINDING line, exit 0);
  * evidence/<id>.json is rewritten on every run.
"""
import threading
import fcntl
import json
import os
import re
import shutil
import subprocess
import sys
import time

ROOT = os.path.dirname(os.path.dirname(os.path.abspath(__file__)))
REPO = os.environ.get("VERIF_REPO", "/repo")
# VERIF_BUILD_ROOT / VERIF_REPO / VERIF_EVIDENCE_DIR let a mutation experiment run the same checks
# against a scratch worktree with its own build tree and evidence directory.
BUILDROOT = os.environ.get("VERIF_BUILD_ROOT", os.path.join(ROOT, "build"))
EVIDENCE = os.environ.get("VERIF_EVIDENCE_DIR", os.path.join(ROOT, "evidence"))
REPLAYS = os.environ.get("VERIF_REPLAY_DIR", os.path.join(ROOT, "replays"))
BUILD = os.path.join(BUILDROOT, "rel")
BIN = os.path.join(BUILD, "bin")
SPEC = os.path.join(ROOT, "spec")
NCPU = os.cpu_count() or 4
TLA_CP = "/opt/veriftools/tla/tla2tools.jar:/opt/veriftools/tla/CommunityModules-deps.jar"


class Broken(Exception):
    """The check itself failed (tooling), not the property."""


def log(*a):
    print("[verif]", *a, file=sys.stderr, flush=True)


# --------------------------------------------------------------------------- build
def build(targets, variant="rel", extra_cmake=()):
    """(Re)build harness executables + celeritas libs from /repo's current working tree."""
    bdir = os.path.join(BUILDROOT, variant)
    os.makedirs(bdir, exist_ok=True)
    lock = open(os.path.join(BUILDROOT, ".lock_" + variant), "w")
    fcntl.flock(lock, fcntl.LOCK_EX)
    try:
        t0 = time.time()
        if not os.path.exists(os.path.join(bdir, "build.ninja")):
            cmd = ["cmake", "-G", "Ninja", "-S", os.path.join(ROOT, "harness"), "-B", bdir,
                   "-DCMAKE_BUILD_TYPE=RelWithDebInfo", "-DCMAKE_PREFIX_PATH=/root/miniconda",
                   "-DVERIF_REPO=" + REPO] + list(extra_cmake)
            r = subprocess.run(cmd, stdout=subprocess.PIPE, stderr=subprocess.STDOUT, text=True)
            if r.returncode != 0:
                raise Broken("cmake configure failed:\n" + r.stdout[-4000:])
        r = subprocess.run(["ninja", "-C", bdir] + list(targets), stdout=subprocess.PIPE,
                           stderr=subprocess.STDOUT, text=True)
        if r.returncode != 0:
            raise Broken("build failed:\n" + r.stdout[-6000:])
        log("build %s %s: %.1fs" % (variant, " ".join(targets), time.time() - t0))
    finally:
        fcntl.flock(lock, fcntl.LOCK_UN)
        lock.close()
    return os.path.join(bdir, "bin")


def run_harness(exe, args, timeout=600, env=None, stdin=None, variant="rel", check=True):
    """Run a harness executable under timeout.  Returns CompletedProcess (text)."""
    e = dict(os.environ)
    e.setdefault("CELER_LOG", "error")
    e.setdefault("CELER_LOG_LOCAL", "error")
    e.setdefault("OMP_NUM_THREADS", "1")
    e.setdefault("CELER_DISABLE_PARALLEL", "1")
    if env:
        e.update(env)
    path = os.path.join(BUILDROOT, variant, "bin", exe)
    try:
        r = subprocess.run([path] + [str(a) for a in args], stdout=subprocess.PIPE,
                           stderr=subprocess.PIPE, text=True, timeout=timeout, env=e, input=stdin)
    except subprocess.TimeoutExpired as ex:
        r = subprocess.CompletedProcess(ex.cmd, 124, ex.stdout or "", ex.stderr or "")
        if isinstance(r.stdout, bytes):
            r.stdout = r.stdout.decode(errors="replace")
        if isinstance(r.stderr, bytes):
            r.stderr = r.stderr.decode(errors="replace")
    if check and r.returncode != 0:
        raise Broken("%s %s exited %d:\n%s" % (exe, args, r.returncode, (r.stderr or "")[-3000:]))
    return r


# ----------------------------------------------------------------------------- TLC
_STATS = re.compile(r"(\d+) states generated, (\d+) distinct states found, (\d+) states left")
_DEPTH = re.compile(r"The depth of the complete state graph search is (\d+)")
_COV = re.compile(r"^<(\w+) line (\d+), col \d+ to line \d+, col \d+ of module (\w+)>: (\d+):(\d+)", re.M)


class TlcResult:
    def __init__(self, code, out, wall):
        self.code = code
        self.out = out
        self.wall = wall
        m = None
        for m in _STATS.finditer(out):
            pass
        self.generated = int(m.group(1)) if m else 0
        self.distinct = int(m.group(2)) if m else 0
        self.left = int(m.group(3)) if m else 0
        d = _DEPTH.search(out)
        self.depth = int(d.group(1)) if d else 0
        self.coverage = {}
        for c in _COV.finditer(out):
            self.coverage[c.group(1)] = self.coverage.get(c.group(1), 0) + int(c.group(4))

    @property
    def ok(self):
        return self.code == 0

    @property
    def violated(self):
        """Safety/liveness/postcondition/deadlock violation reported by TLC (not a tool failure)."""
        return self.code in (10, 11, 12, 13) or "Postcondition" in self.out and "violated" in self.out

    def violated_names(self):
        names = re.findall(r"Invariant (\w+) is violated", self.out)
        names += re.findall(r"Action property (\w+) is violated", self.out)
        names += re.findall(r"Temporal properties were violated", self.out)
        names += re.findall(r"Postcondition\s+(\w+)", self.out)
        return names


_tlc_seq = [0]
_tlc_lock = threading.Lock()


def tlc(module, cfg=None, workers=None, env=None, timeout=900, simulate=None, depth=None,
        coverage=False, deadlock=False, heap="8g", dfs=False, seed=None, extra=(), cwd=SPEC,
        expect_ok=None):
    """Run TLC on spec/<module>.tla with spec/<cfg>.cfg.  Returns TlcResult.

    simulate: None or number of traces (per worker).  dfs: use the StateDeque queue.
    expect_ok=True raises Broken for any non-zero exit that is not a property violation.
    """
    with _tlc_lock:  # tlc() is called from thread pools: the metadir must be unique per run
        _tlc_seq[0] += 1
        seq = _tlc_seq[0]
    meta = os.path.join(BUILDROOT, "tlc", "%d_%d_%s" % (os.getpid(), seq, module))
    os.makedirs(meta, exist_ok=True)
    # keep the JVM's own thread count proportional to the TLC workers: many trace validations run
    # side by side and the default (one GC/JIT thread per core each) oversubscribes the machine
    w = workers or 1
    gc = ["-XX:+UseSerialGC"] if w == 1 else ["-XX:+UseParallelGC", "-XX:ParallelGCThreads=%d" % min(4, w)]
    cmd = ["java"] + gc + ["-XX:CICompilerCount=2", "-Xmx" + heap, "-Xss64m"]
    if dfs:
        cmd.append("-Dtlc2.tool.queue.IStateQueue=StateDeque")
    cmd += ["-cp", TLA_CP, "tlc2.TLC", "-metadir", meta, "-noGenerateSpecTE"]
    cmd += ["-workers", str(workers or 1)]
    if cfg:
        cmd += ["-config", cfg if cfg.endswith(".cfg") else cfg + ".cfg"]
    if simulate:
        cmd += ["-simulate", "num=%d" % simulate]
        if depth:
            cmd += ["-depth", str(depth)]
    if seed is not None:
        cmd += ["-seed", str(seed)]
    if coverage:
        cmd += ["-coverage", "1"]
    if not deadlock:
        cmd += ["-deadlock"]  # -deadlock *disables* deadlock checking
    cmd += list(extra)
    cmd.append(module if module.endswith(".tla") else module + ".tla")
    e = dict(os.environ)
    if env:
        e.update({k: str(v) for k, v in env.items()})
    t0 = time.time()
    try:
        r = subprocess.run(cmd, cwd=cwd, stdout=subprocess.PIPE, stderr=subprocess.STDOUT, text=True,
                           timeout=timeout, env=e)
        code, out = r.returncode, r.stdout
    except subprocess.TimeoutExpired as ex:
        out = ex.stdout or ""
        if isinstance(out, bytes):
            out = out.decode(errors="replace")
        code = 124
    finally:
        shutil.rmtree(meta, ignore_errors=True)
    res = TlcResult(code, out, time.time() - t0)
    if expect_ok and code != 0 and not res.violated:
        raise Broken("TLC failed on %s/%s (exit %d):\n%s" % (module, cfg, code, out[-4000:]))
    if code == 124:
        raise Broken("TLC timed out on %s/%s after %ds" % (module, cfg, timeout))
    return res


def tlc_parallel(jobs, maxpar=None):
    """jobs: list of kwargs dicts for tlc(); run concurrently in threads. Returns results in order."""
    import concurrent.futures as cf
    maxpar = maxpar or max(1, NCPU // 2)
    with cf.ThreadPoolExecutor(max_workers=maxpar) as ex:
        futs = [ex.submit(lambda kw=kw: tlc(**kw)) for kw in jobs]
        return [f.result() for f in futs]


def validate_trace(module, cfg, trace_path, env=None, timeout=900, dfs=False, heap="4g", workers=1):
    """Trace validation: TRACE env var names the ndjson file.  Returns (accepted, TlcResult).

    The trace spec's POSTCONDITION fails (TLC exit != 0 with 'REJECTED' printed) when the
    trace is not a behaviour of the spec.  Anything else non-zero is a broken check.
    """
    e = {"TRACE": trace_path}
    if env:
        e.update(env)
    r = tlc(module, cfg, workers=workers, env=e, timeout=timeout, dfs=dfs, heap=heap)
    if r.code == 0:
        return True, r
    if "REJECTED" in r.out or r.violated:
        return False, r
    raise Broken("trace validation of %s with %s/%s failed to run (exit %d):\n%s"
                 % (trace_path, module, cfg, r.code, r.out[-4000:]))


def rejected_info(r):
    """Extract the (possibly multi-line) REJECTED tuple printed by the trace spec's postcondition."""
    i = r.out.find('"REJECTED"')
    if i >= 0:
        j = r.out.find("Error:", i)
        txt = r.out[max(0, i - 3):(j if j > 0 else i + 3000)]
        return re.sub(r"\s+", " ", txt)[:2500]
    return r.out[-1500:]


# ------------------------------------------------------------------- findings/evidence
def known_findings(pid):
    p = os.path.join(ROOT, "known_findings.json")
    if not os.path.exists(p):
        return []
    data = json.load(open(p))
    return [f for f in data.get("findings", []) if f.get("property") == pid and f.get("status") == "known"]


class Ctx:
    def __init__(self, pid, tier, seed, level):
        self.pid = pid
        self.tier = tier
        self.seed = seed
        self.level = level
        self.t0 = time.time()
        self.violations = []   # (what, replay)
        self.known_hits = []   # (finding id, what)
        self.coverage = {}
        self.assumptions = []
        self.findings = known_findings(pid)
        self.workdir = os.path.join(BUILDROOT, "work", pid)
        shutil.rmtree(self.workdir, ignore_errors=True)
        os.makedirs(self.workdir, exist_ok=True)
        os.makedirs(REPLAYS, exist_ok=True)

    quick = property(lambda s: s.tier == "quick")

    def path(self, name):
        return os.path.join(self.workdir, name)

    def match_known(self, tags):
        """tags: dict describing the failure.  A finding matches if all its 'match' keys agree."""
        for f in self.findings:
            m = f.get("match", {})
            if m and all(str(tags.get(k)) == str(v) for k, v in m.items()):
                return f
        return None

    def violation(self, what, tags=None, files=()):
        """Report a failure; classify against known findings.  files are copied to replays/."""
        f = self.match_known(tags or {})
        if f is not None:
            self.known_hits.append((f["id"], what))
            return False
        stamp = "%s_%d_%d" % (self.pid, int(time.time()), len(self.violations))
        rdir = os.path.join(REPLAYS, stamp)
        os.makedirs(rdir, exist_ok=True)
        with open(os.path.join(rdir, "what.txt"), "w") as fh:
            fh.write(what + "\n" + json.dumps(tags or {}) + "\n")
        for src in files:
            if src and os.path.exists(src):
                shutil.copy(src, rdir)
        self.violations.append((what, rdir))
        return True

    def add(self, key, n=1):
        self.coverage[key] = self.coverage.get(key, 0) + n

    def finish(self):
        wall = time.time() - self.t0
        seen = set()
        for fid, what in self.known_hits:
            if fid in seen:
                continue
            seen.add(fid)
            f = [x for x in self.findings if x["id"] == fid][0]
            print("KNOWN-FINDING: property=%s %s: %s" % (self.pid, fid, f.get("what", what)))
        cov = dict(self.coverage)
        cov.setdefault("known_finding_hits", len(self.known_hits))
        ev = {"property_id": self.pid, "tier": self.tier, "seed": self.seed, "level": self.level,
              "coverage": cov, "assumptions": self.assumptions, "wall_s": round(wall, 2),
              "violations": len(self.violations)}
        # extension checks (X01.., specs beyond the listed properties) keep their evidence apart
        evdir = os.path.join(EVIDENCE, "extras") if self.pid.startswith("X") else EVIDENCE
        os.makedirs(evdir, exist_ok=True)
        with open(os.path.join(evdir, self.pid + ".json"), "w") as fh:
            json.dump(ev, fh, indent=1, sort_keys=True)
            fh.write("\n")
        for what, rdir in self.violations:
            print("VIOLATION property=%s replay=%s" % (self.pid, rdir))
            print("  " + what.replace("\n", "\n  ")[:3000])
        sys.stdout.flush()
        return 1 if self.violations else 0


def shards(seq, n):
    n = max(1, min(n, len(seq)))
    k = (len(seq) + n - 1) // n
    return [seq[i:i + k] for i in range(0, len(seq), k)]


def write_ndjson(path, records):
    with open(path, "w") as fh:
        for r in records:
            fh.write(json.dumps(r, separators=(",", ":")) + "\n")


def read_ndjson(path):
    out = []
    with open(path) as fh:
        for line in fh:
            line = line.strip()
            if line:
                out.append(json.loads(line))
    return out
