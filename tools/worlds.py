"""Lattice worlds for C03/C11 (DESIGN.md section 4.4): exact integer geometry.

A world is ONE JSON file read by TLC (spec/LatticeNav.tla: World == JsonDeserialize(IOEnv.WORLD))
and by harness/vnav.cc (which builds the real geometry through the public orangeinp API).

  world    = {"name", "universes": [u0 (global), u1, ...], "features": [...]}
  unit     = {"kind": "unit", "name", "lo": [x,y,z], "hi": [x,y,z],       boundary box, EVEN integers
              "vols": [vol...], "bg": name of the background volume or ""}
  vol      = {"name", "terms": [{"box": [lo,hi], "cut": [[lo,hi]...]}...],   region = UNION of (box minus cuts)
              "u": -1 (material) | daughter universe index, "t": [..], "m": [[..],[..],[..]]}
              daughter-to-parent transform  x_parent = m * x_daughter + t  (m: signed permutation, t EVEN);
              the region of a daughter volume equals m * (daughter boundary box) + t exactly
  array    = {"kind": "array", "name", "lo", "hi", "grid": [[x0..], [y0..], [z0..]],
              "cells": [{"name", "u", "t", "m": identity}...]}  cell (i,j,k) at index (i*ny + j)*nz + k
              optional "oversize": true -- the daughter's box may be LARGER than the cell it fills (the array
              truncates it, as SCALE arrays do): then the cell's planes exist at the array level only

All surfaces are axis-aligned planes at even coordinates; tracks stop only at points with all-odd
coordinates (cell centres) or on a boundary, so everything is exactly representable.  Worlds are
valid partitions (each cell of a unit in exactly one volume, or in none if the unit has a
background volume); check_world() verifies it cell by cell, together with the daughter-hole
consistency.

CLI:  worlds.py library <outdir>            write the hand-written corner-case worlds
      worlds.py random <seed> <n> <outdir>  write n seeded random worlds
      worlds.py curved <seed> <n> <outdir>  write n seeded curved (non-lattice) world descriptions
      worlds.py check <file>...             validate world files
"""
import itertools
import json
import os
import random
import sys

I3 = [[1, 0, 0], [0, 1, 0], [0, 0, 1]]


# ----------------------------------------------------------------- signed permutations
def all_signed_perms():
    out = []
    for p in itertools.permutations(range(3)):
        for s in itertools.product((1, -1), repeat=3):
            m = [[0] * 3 for _ in range(3)]
            for r in range(3):
                m[r][p[r]] = s[r]
            out.append(m)
    return out


PERMS = all_signed_perms()


def det(m):
    return (m[0][0] * (m[1][1] * m[2][2] - m[1][2] * m[2][1]) - m[0][1] * (m[1][0] * m[2][2] - m[1][2] * m[2][0])
            + m[0][2] * (m[1][0] * m[2][1] - m[1][1] * m[2][0]))


def mat_vec(m, v):
    return [sum(m[r][c] * v[c] for c in range(3)) for r in range(3)]


def mat_t(m):
    return [[m[c][r] for c in range(3)] for r in range(3)]


def rot(axis, quarter):
    """Rotation by quarter*90 degrees about an axis (0,1,2), right-handed."""
    c, s = [(1, 0), (0, 1), (-1, 0), (0, -1)][quarter % 4]
    a, b = [(1, 2), (2, 0), (0, 1)][axis]
    m = [[1 if r == k else 0 for k in range(3)] for r in range(3)]
    m[a][a], m[a][b], m[b][a], m[b][b] = c, -s, s, c
    return m


NAMED = {
    "id": I3,
    "rxp": rot(0, 1), "rxm": rot(0, 3), "ryp": rot(1, 1), "rym": rot(1, 3), "rzp": rot(2, 1), "rzm": rot(2, 3),
    "rz180": rot(2, 2),
    "mirx": [[-1, 0, 0], [0, 1, 0], [0, 0, 1]],
    "swapxy": [[0, 1, 0], [1, 0, 0], [0, 0, 1]],
    "cyc": [[0, 0, 1], [1, 0, 0], [0, 1, 0]],
    "imp": [[0, -1, 0], [0, 0, 1], [1, 0, 0]],   # improper: cyclic permutation with one sign
}


def xform_box(m, t, box):
    """Image of a box under x -> m x + t."""
    a = [mat_vec(m, box[0])[k] + t[k] for k in range(3)]
    b = [mat_vec(m, box[1])[k] + t[k] for k in range(3)]
    return [[min(a[k], b[k]) for k in range(3)], [max(a[k], b[k]) for k in range(3)]]


# ------------------------------------------------------------------------- constructors
def B(x0, x1, y0, y1, z0, z1):
    return [[x0, y0, z0], [x1, y1, z1]]


def mat(name, *terms):
    """Material volume: terms are boxes or (box, [cuts])."""
    ts = []
    for t in terms:
        if isinstance(t, tuple):
            ts.append({"box": t[0], "cut": list(t[1])})
        else:
            ts.append({"box": t, "cut": []})
    return {"name": name, "terms": ts, "u": -1, "t": [0, 0, 0], "m": I3}


def hole(name, u, universes, m=I3, t=(0, 0, 0)):
    """Daughter volume holding universe index u placed with x_parent = m x + t."""
    d = universes[u]
    return {"name": name, "terms": [{"box": xform_box(m, list(t), [d["lo"], d["hi"]]), "cut": []}],
            "u": u, "t": list(t), "m": m}


def unit(name, box, vols, bg=""):
    return {"kind": "unit", "name": name, "lo": box[0], "hi": box[1], "vols": vols, "bg": bg}


def array(name, grid, cells):
    return {"kind": "array", "name": name, "lo": [g[0] for g in grid], "hi": [g[-1] for g in grid],
            "grid": grid, "cells": cells}


def world(name, universes, features=()):
    return {"name": name, "universes": universes, "features": sorted(set(features))}


# --------------------------------------------------------------- python point location
# (used ONLY to validate generated worlds; the oracle of the checks is the TLA+ spec)
def in_box2(q, b):
    return all(2 * b[0][a] < q[a] < 2 * b[1][a] for a in range(3))


def in_vol(q, v):
    return any(in_box2(q, t["box"]) and not any(in_box2(q, c) for c in t["cut"]) for t in v["terms"])


def down(q, f):
    return mat_vec(mat_t(f["m"]), [q[a] - 2 * f["t"][a] for a in range(3)])


def path_in(w, u, q):
    un = w["universes"][u]
    if un["kind"] == "unit":
        hits = [v for v in un["vols"] if in_vol(q, v)]
        if len(hits) > 1:
            raise ValueError("overlap in %s at %s: %s" % (un["name"], q, [v["name"] for v in hits]))
        if not hits:
            if not un["bg"]:
                raise ValueError("gap in %s at %s" % (un["name"], q))
            return [un["bg"]]
        v = hits[0]
        return [v["name"]] if v["u"] < 0 else [v["name"]] + path_in(w, v["u"], down(q, v))
    idx = []
    for a in range(3):
        n = sum(1 for g in un["grid"][a] if 2 * g < q[a])
        if n < 1 or n >= len(un["grid"][a]):
            raise ValueError("outside array %s at %s" % (un["name"], q))
        idx.append(n - 1)
    ny, nz = len(un["grid"][1]) - 1, len(un["grid"][2]) - 1
    c = un["cells"][(idx[0] * ny + idx[1]) * nz + idx[2]]
    return [c["name"]] + path_in(w, c["u"], down(q, c))


def vol_path(w, q):
    g = w["universes"][0]
    if not in_box2(q, [g["lo"], g["hi"]]):
        return ["EXT"]
    return path_in(w, 0, q)


def cells_of(box):
    return itertools.product(*[range(box[0][a] + 1, box[1][a], 2) for a in range(3)])


def check_world(w):
    """Raise ValueError unless w is a valid lattice world (partition, parity, hole consistency)."""
    names = set()
    us = w["universes"]
    for ui, un in enumerate(us):
        for a in range(3):
            if un["lo"][a] % 2 or un["hi"][a] % 2 or un["lo"][a] >= un["hi"][a]:
                raise ValueError("bad box of %s" % un["name"])
        fills = un["vols"] if un["kind"] == "unit" else un["cells"]
        for v in fills:
            if v["name"] in names or v["name"] in ("EXT", ""):
                raise ValueError("duplicate/illegal volume name %s" % v["name"])
            names.add(v["name"])
            if any(x % 2 for x in v["t"]):
                raise ValueError("odd translation in %s" % v["name"])
            if v["u"] >= 0:
                if v["u"] <= ui:
                    raise ValueError("daughter index must exceed parent index (%s)" % v["name"])
                if v["m"] not in PERMS:
                    raise ValueError("not a signed permutation in %s" % v["name"])
        if un["kind"] == "unit":
            if un["bg"]:
                if un["bg"] in names:
                    raise ValueError("duplicate name %s" % un["bg"])
                names.add(un["bg"])
            for v in un["vols"]:
                for t in v["terms"]:
                    for bx in [t["box"]] + t["cut"]:
                        if any(c % 2 for c in bx[0] + bx[1]):
                            raise ValueError("odd plane in %s" % v["name"])
                if v["u"] >= 0:
                    d = us[v["u"]]
                    img = xform_box(v["m"], v["t"], [d["lo"], d["hi"]])
                    if len(v["terms"]) != 1 or v["terms"][0]["cut"] or v["terms"][0]["box"] != img:
                        raise ValueError("hole %s is not the image of its daughter's box" % v["name"])
            # partition: every cell of the unit's box in exactly one volume (or background)
            for c in cells_of([un["lo"], un["hi"]]):
                q = [2 * x for x in c]
                hits = [v["name"] for v in un["vols"] if in_vol(q, v)]
                if len(hits) > 1 or (not hits and not un["bg"]):
                    raise ValueError("unit %s: cell %s in volumes %s" % (un["name"], c, hits))
            # nothing sticks out of the boundary box
            for v in un["vols"]:
                for t in v["terms"]:
                    if any(t["box"][0][a] < un["lo"][a] or t["box"][1][a] > un["hi"][a] for a in range(3)):
                        raise ValueError("volume %s exceeds the boundary of %s" % (v["name"], un["name"]))
        else:
            g = un["grid"]
            nx, ny, nz = [len(x) - 1 for x in g]
            if len(un["cells"]) != nx * ny * nz:
                raise ValueError("array %s: wrong number of cells" % un["name"])
            for i, j, k in itertools.product(range(nx), range(ny), range(nz)):
                c = un["cells"][(i * ny + j) * nz + k]
                d = us[c["u"]]
                img = xform_box(c["m"], c["t"], [d["lo"], d["hi"]])
                cellbox = [[g[0][i], g[1][j], g[2][k]], [g[0][i + 1], g[1][j + 1], g[2][k + 1]]]
                if un.get("oversize"):
                    if any(img[0][a] > cellbox[0][a] or img[1][a] < cellbox[1][a] for a in range(3)):
                        raise ValueError("array cell %s is not covered by its daughter's box" % c["name"])
                elif img != cellbox:
                    raise ValueError("array cell %s does not match its daughter's box" % c["name"])
                if c["m"] != I3:
                    raise ValueError("array cells carry translations only")
    # every cell of the world resolves to a path (recursion terminates, no gap at any level)
    g = us[0]
    paths = set()
    for c in cells_of([g["lo"], g["hi"]]):
        paths.add(tuple(vol_path(w, [2 * x for x in c])))
    # every universe is used
    used = {0}
    for un in us:
        for v in (un["vols"] if un["kind"] == "unit" else un["cells"]):
            if v["u"] >= 0:
                used.add(v["u"])
    if used != set(range(len(us))):
        raise ValueError("unused universes")
    return len(paths)


# ------------------------------------------------------------------------------ library
def leaf_universe(name, h=2):
    """A fully asymmetric cube [-h,h]^3: A (x<0), B (x>0,y<0), C (x>0,y>0,z<0), E (x>0,y>0,z>0)."""
    return unit(name, B(-h, h, -h, h, -h, h), [
        mat(name + ".A", B(-h, 0, -h, h, -h, h)),
        mat(name + ".B", B(0, h, -h, 0, -h, h)),
        mat(name + ".C", B(0, h, 0, h, -h, 0)),
        mat(name + ".E", B(0, h, 0, h, 0, h)),
    ])


def w_single_box():
    return world("single_box", [unit("G", B(-2, 2, -2, 4, -2, 2), [mat("G.w", B(-2, 2, -2, 4, -2, 2))])],
                 ["single"])


def w_nested_boxes():
    inner = B(-2, 2, -2, 2, -2, 0)
    mid = B(-4, 4, -4, 4, -2, 2)
    g = B(-6, 6, -4, 6, -2, 4)
    return world("nested_boxes", [unit("G", g, [
        mat("G.inner", inner), mat("G.mid", (mid, [inner])), mat("G.outer", (g, [mid]))])],
        ["negated-box", "internal-surfaces"])


def w_lshape():
    g = B(-4, 4, -4, 4, -2, 2)
    return world("lshape", [unit("G", g, [
        mat("G.L", B(-4, 0, -4, 4, -2, 2), B(0, 4, -4, 0, -2, 2)),          # union with an internal surface
        mat("G.U", B(0, 4, 0, 4, -2, 0)),
        mat("G.V", B(0, 4, 0, 4, 0, 2))])], ["union", "internal-surfaces"])


def w_ushape():
    # a U whose slot is another volume: rays leave U, cross the slot and re-enter U
    g = B(-6, 6, -4, 4, -2, 2)
    return world("ushape", [unit("G", g, [
        mat("G.U", B(-6, -2, -4, 4, -2, 2), B(-2, 2, -4, 0, -2, 2), B(2, 6, -4, 4, -2, 2)),
        mat("G.slot", B(-2, 2, 0, 4, -2, 2))])], ["union", "internal-surfaces", "reentrant-volume"])


def w_background():
    g = B(-6, 6, -4, 4, -2, 2)
    return world("background", [unit("G", g, [
        mat("G.a", B(-4, -2, -2, 2, -2, 2)),
        mat("G.b", B(2, 4, -4, 0, -2, 0)),
        mat("G.c", B(2, 6, 2, 4, -2, 2))], bg="G.bg")], ["background"])


def w_daughter(name, m, t=(2, 0, 0), feats=(), small=False):
    d = leaf_universe("D")
    us = [None, d]
    h = hole("G.h", 1, us, m, t)
    hb = h["terms"][0]["box"]
    if small:   # the design-check variant: margins on two sides only, hole touching the others
        g = B(hb[0][0] - 2, hb[1][0] + 2, hb[0][1] - 2, hb[1][1], hb[0][2], hb[1][2])
    else:
        g = B(hb[0][0] - 4, hb[1][0] + 2, hb[0][1] - 2, hb[1][1] + 2, hb[0][2] - 2, hb[1][2] + 2)
    us[0] = unit("G", g, [h, mat("G.w", (g, [hb]))])
    return world(name, us, ["daughter"] + list(feats))


def w_big_room():
    # a 6x6x6 single-volume daughter (turned) so that interior points with safety 3 exist and
    # move_internal(position) inside the safety sphere is exercised through a rotated level
    d = unit("D", B(-4, 2, -4, 2, -4, 2), [mat("D.R", B(-4, 2, -4, 2, -4, 2))])
    us = [None, d]
    h = hole("G.h", 1, us, NAMED["rzp"], (-2, 0, 0))
    g = B(-6, 2, -4, 2, -4, 2)
    us[0] = unit("G", g, [h, mat("G.w", B(-6, -4, -4, 2, -4, 2))])
    return world("big_room", us, ["daughter", "rotated-daughter", "coincident-daughter-faces", "safety-sphere"])


def w_nested3():
    # three levels, different rotations; D2's hole touches D1's boundary on one side
    d2 = leaf_universe("D2")
    us = [None, None, d2]
    h2 = hole("D1.h", 2, us, NAMED["rxp"], (2, 0, 0))            # local box [0,4]x[-2,2]x[-2,2]
    b1 = B(-4, 4, -2, 2, -2, 2)
    us[1] = unit("D1", b1, [h2, mat("D1.p", B(-4, 0, -2, 0, -2, 2)), mat("D1.q", B(-4, 0, 0, 2, -2, 2))])
    h1 = hole("G.h", 1, us, NAMED["rzp"], (0, 2, 0))
    hb = h1["terms"][0]["box"]
    g = B(hb[0][0] - 2, hb[1][0] + 2, hb[0][1] - 2, hb[1][1] + 2, hb[0][2] - 2, hb[1][2] + 2)
    us[0] = unit("G", g, [h1, mat("G.w", (g, [hb]))])
    return world("nested3", us, ["daughter", "rotated-daughter", "three-levels", "coincident-daughter-faces"])


def w_nested3b():
    # three levels with a reflection on top of a rotation; the deepest hole is strictly interior
    d2 = leaf_universe("D2")
    us = [None, None, d2]
    h2 = hole("D1.h", 2, us, NAMED["rym"], (0, 0, 0))
    b1 = B(-4, 4, -4, 2, -2, 2)
    us[1] = unit("D1", b1, [h2, mat("D1.r", (b1, [h2["terms"][0]["box"]]))])
    h1 = hole("G.h", 1, us, NAMED["swapxy"], (0, 0, 2))
    hb = h1["terms"][0]["box"]
    g = B(hb[0][0] - 2, hb[1][0] + 2, hb[0][1] - 2, hb[1][1] + 2, hb[0][2] - 2, hb[1][2])
    us[0] = unit("G", g, [h1, mat("G.w", (g, [hb]))])
    return world("nested3b", us, ["daughter", "rotated-daughter", "reflected-daughter", "three-levels",
                                  "negated-box", "coincident-daughter-faces"])


def w_coincident():
    # the hole shares faces with the world boundary and with material volumes on coincident planes;
    # the daughter's internal plane x_local = 0 continues as a surface of the parent (x = 2)
    d = leaf_universe("D")
    us = [None, d]
    h = hole("G.h", 1, us, NAMED["rzm"], (2, 2, 0))               # box [0,4]x[0,4]x[-2,2]
    g = B(-2, 6, -2, 4, -2, 2)
    us[0] = unit("G", g, [h,
                          mat("G.l", B(-2, 0, -2, 4, -2, 2)),
                          mat("G.b1", B(0, 2, -2, 0, -2, 2)),
                          mat("G.b2", B(2, 6, -2, 0, -2, 2)),
                          mat("G.r", B(4, 6, 0, 4, -2, 2))])
    return world("coincident", us, ["daughter", "rotated-daughter", "coincident-daughter-faces"])


def w_adjacent():
    # two daughters (same universe, different transforms) sharing a face, plus a background
    d = leaf_universe("D")
    us = [None, d]
    h1 = hole("G.h1", 1, us, NAMED["rzp"], (-2, 0, 0))
    h2 = hole("G.h2", 1, us, NAMED["mirx"], (2, 0, 0))
    g = B(-6, 6, -4, 4, -2, 2)
    us[0] = unit("G", g, [h1, h2], bg="G.bg")
    return world("adjacent_daughters", us, ["daughter", "rotated-daughter", "reflected-daughter",
                                            "adjacent-daughters", "background", "shared-universe"])


def cell_universe(name, s):
    """[0,sx]x[0,sy]x[0,sz] split asymmetrically."""
    sx, sy, sz = s
    return unit(name, B(0, sx, 0, sy, 0, sz), [
        mat(name + ".a", B(0, 2, 0, sy, 0, sz)),
        mat(name + ".b", (B(0, sx, 0, sy, 0, sz), [B(0, 2, 0, sy, 0, sz)]))])


def w_array(name, m, t):
    c = cell_universe("C", (4, 4, 4))
    c2 = unit("C2", B(0, 4, 0, 4, 0, 4), [mat("C2.lo", B(0, 4, 0, 2, 0, 4)), mat("C2.hi", B(0, 4, 2, 4, 0, 4))])
    us = [None, None, c, c2]
    grid = [[-4, 0, 4], [-4, 0, 4], [-2, 2]]
    cells = []
    for i in range(2):
        for j in range(2):
            cells.append({"name": "A.c%d%d0" % (i, j), "u": 2 if (i + j) % 2 == 0 else 3,
                          "t": [grid[0][i], grid[1][j], -2], "m": I3})
    us[1] = array("A", grid, cells)
    h = hole("G.h", 1, us, m, t)
    hb = h["terms"][0]["box"]
    g = B(hb[0][0] - 2, hb[1][0] + 2, hb[0][1] - 2, hb[1][1] + 2, hb[0][2], hb[1][2] + 2)
    us[0] = unit("G", g, [h, mat("G.w", (g, [hb]))])
    return world(name, us, ["array", "daughter", "coincident-daughter-faces"]
                 + (["rotated-daughter"] if m != I3 else []))


def w_slab_asym():
    # the daughter's only internal face (local x = 2) is 3 away from cells whose nearest boundary, a face of
    # the HOLE (parent level, elided from the daughter), is 1 away: a safety search that trusts the deepest
    # level alone over-estimates here
    d = unit("D", B(-2, 6, -2, 2, -2, 2), [mat("D.A", B(-2, 2, -2, 2, -2, 2)), mat("D.B", B(2, 6, -2, 2, -2, 2))])
    us = [None, d]
    h = hole("G.h", 1, us, NAMED["rzp"], (2, 0, 0))
    hb = h["terms"][0]["box"]
    g = B(hb[0][0] - 2, hb[1][0], hb[0][1] - 2, hb[1][1], hb[0][2], hb[1][2])
    us[0] = unit("G", g, [h, mat("G.w", (g, [hb]))])
    return world("slab_asym", us, ["daughter", "rotated-daughter", "coincident-daughter-faces", "parent-face-closer"])


def w_big_room2():
    # two 6x6x6 rooms separated by an INTERNAL face of a turned daughter: interior points with safety 3, so
    # move_internal(position) inside the safety sphere runs through a rotated level whose local position
    # decides the distance to that internal face
    d = unit("D", B(-6, 6, -4, 2, -4, 2), [mat("D.P", B(-6, 0, -4, 2, -4, 2)), mat("D.Q", B(0, 6, -4, 2, -4, 2))])
    us = [None, d]
    h = hole("G.h", 1, us, NAMED["rzp"], (-2, 0, 0))
    hb = h["terms"][0]["box"]
    g = B(hb[0][0] - 2, hb[1][0], hb[0][1], hb[1][1], hb[0][2], hb[1][2])
    us[0] = unit("G", g, [h, mat("G.w", (g, [hb]))])
    return world("big_room2", us, ["daughter", "rotated-daughter", "coincident-daughter-faces", "safety-sphere"])


def w_array_oversize():
    # array cells 4x4x6 filled with units LARGER than the cell: the cell planes exist at the array level only
    # (C's only face, x_local = -2, lies outside the cell; C2 has an internal face inside the cell)
    c = unit("C", B(-4, 6, -2, 6, -2, 8), [mat("C.a", B(-4, -2, -2, 6, -2, 8)), mat("C.b", B(-2, 6, -2, 6, -2, 8))])
    c2 = unit("C2", B(-2, 6, -2, 6, -2, 8), [mat("C2.lo", B(-2, 6, -2, 2, -2, 8)), mat("C2.hi", B(-2, 6, 2, 6, -2, 8))])
    us = [None, None, c, c2]
    grid = [[-4, 0, 4], [-4, 0, 4], [-2, 4]]
    cells = []
    for i in range(2):
        for j in range(2):
            cells.append({"name": "A.c%d%d0" % (i, j), "u": 2 if (i + j) % 2 == 0 else 3,
                          "t": [grid[0][i], grid[1][j], -2], "m": I3})
    us[1] = array("A", grid, cells)
    us[1]["oversize"] = True
    h = hole("G.h", 1, us, NAMED["id"], (0, 0, 0))
    hb = h["terms"][0]["box"]
    g = B(hb[0][0] - 2, hb[1][0], hb[0][1], hb[1][1], hb[0][2], hb[1][2])
    us[0] = unit("G", g, [h, mat("G.w", (g, [hb]))])
    return world("array_oversize", us, ["array", "daughter", "coincident-daughter-faces", "oversize-array-fill"])


def library():
    ws = [w_single_box(), w_nested_boxes(), w_lshape(), w_ushape(), w_background(),
          w_daughter("daughter_translated", NAMED["id"], (2, -2, 0), ["translated-daughter"])]
    # one small world per quarter turn / reflection (the hole touches two faces of the world), ...
    for k in ("rxp", "rxm", "ryp", "rym", "rzm"):
        ws.append(w_daughter("rot_" + k, NAMED[k], (2, 0, 0), ["rotated-daughter", "coincident-daughter-faces"], small=True))
    ws.append(w_daughter("rot_rz180", NAMED["rz180"], (0, 2, 0), ["rotated-daughter", "coincident-daughter-faces"], small=True))
    for k in ("mirx", "swapxy"):
        ws.append(w_daughter("refl_" + k, NAMED[k], (2, 0, 2), ["reflected-daughter", "coincident-daughter-faces"], small=True))
    # ... the design-check worlds (also replayed) ...
    ws.append(w_daughter("mc_rzp", NAMED["rzp"], (2, 0, 0), ["rotated-daughter", "coincident-daughter-faces"], small=True))
    ws.append(w_daughter("mc_imp", NAMED["imp"], (0, 2, 0), ["reflected-daughter", "coincident-daughter-faces"], small=True))
    ws.append(w_daughter("mc_id", NAMED["id"], (0, 0, 2), ["translated-daughter", "coincident-daughter-faces"], small=True))
    # ... and two with the hole strictly inside the world
    ws.append(w_daughter("rot_rzp_big", NAMED["rzp"], (2, 0, 0), ["rotated-daughter"]))
    ws.append(w_daughter("refl_cyc_big", NAMED["cyc"], (0, 0, 2), ["rotated-daughter"]))
    ws += [w_big_room(), w_nested3(), w_nested3b(), w_coincident(), w_array("array221", NAMED["id"], (0, 0, 0)),
           w_array("array221_rot", NAMED["rxp"], (2, 0, 0)), w_adjacent(),
           w_slab_asym(), w_big_room2(), w_array_oversize()]
    return ws


# -------------------------------------------------------------------- seeded generator
def split_box(rng, box, maxleaves):
    """Random guillotine partition of a box into cell-aligned sub-boxes."""
    leaves = [box]
    for _ in range(4 * maxleaves):
        if len(leaves) >= maxleaves:
            break
        i = rng.randrange(len(leaves))
        b = leaves[i]
        axes = [a for a in range(3) if b[1][a] - b[0][a] >= 4]
        if not axes:
            continue
        a = rng.choice(axes)
        cut = rng.randrange(b[0][a] + 2, b[1][a], 2)
        lo = [list(b[0]), list(b[1])]
        hi = [list(b[0]), list(b[1])]
        lo[1][a] = cut
        hi[0][a] = cut
        leaves[i:i + 1] = [lo, hi]
    return leaves


def touching(a, b):
    """Two disjoint boxes share a face of positive area."""
    for ax in range(3):
        if a[1][ax] == b[0][ax] or b[1][ax] == a[0][ax]:
            if all(min(a[1][o], b[1][o]) > max(a[0][o], b[0][o]) for o in range(3) if o != ax):
                return True
    return False


def gen_unit(rng, us, name, box, depth, feats):
    """Append a unit filling `box` to us; returns its index.  Daughters are appended after it."""
    idx = len(us)
    us.append(None)
    ncell = 1
    for a in range(3):
        ncell *= (box[1][a] - box[0][a]) // 2
    leaves = split_box(rng, box, min(6, max(1, ncell // 2)))
    rng.shuffle(leaves)
    vols = []
    rest = []           # leaves that go to the rest / background
    k = 0
    n = 0
    while k < len(leaves):
        b = leaves[k]
        r = rng.random()
        size = [b[1][a] - b[0][a] for a in range(3)]
        n += 1
        if depth > 0 and r < 0.35 and max(size) <= 8:
            # a daughter: its box is m^T (b - t) with t = an even corner offset
            m = rng.choice(PERMS)
            t = [b[0][a] + rng.choice((0, 2)) for a in range(3)]
            mt = mat_t(m)
            dbox = xform_box(mt, [0, 0, 0], [[b[0][a] - t[a] for a in range(3)], [b[1][a] - t[a] for a in range(3)]])
            if depth >= 1 and rng.random() < 0.45 and sum(1 for a in range(3) if dbox[1][a] - dbox[0][a] >= 4) >= 2:
                du = gen_array(rng, us, "%sa%d" % (name, n), dbox, feats)
            else:
                du = gen_unit(rng, us, "%sd%d" % (name, n), dbox, depth - 1, feats)
            vols.append({"name": "%s.h%d" % (name, n), "terms": [{"box": b, "cut": []}], "u": du, "t": t, "m": m})
            feats.add("daughter")
            if m != I3:
                feats.add("reflected-daughter" if det(m) < 0 else "rotated-daughter")
            if len(us) - idx > 2:
                feats.add("three-levels")
        elif r < 0.55 and k + 1 < len(leaves) and touching(b, leaves[k + 1]):
            vols.append(mat("%s.v%d" % (name, n), b, leaves[k + 1]))       # union of two touching boxes
            feats.add("union")
            k += 1
        elif r < 0.8:
            vols.append(mat("%s.v%d" % (name, n), b))
        else:
            rest.append(b)
        k += 1
    bg = ""
    if rest:
        mode = rng.choice(("bg", "neg", "union"))
        if mode == "bg":
            bg = name + ".bg"
            feats.add("background")
        elif mode == "neg":
            cuts = [t["box"] for v in vols for t in v["terms"]]
            vols.append(mat(name + ".rest", (box, cuts)))
            feats.add("negated-box")
        else:
            vols.append(mat(name + ".rest", *rest))
            feats.add("union")
    us[idx] = unit(name, box, vols, bg)
    if not vols:
        us[idx]["vols"] = [mat(name + ".all", box)]
        us[idx]["bg"] = ""
    return idx


def gen_array(rng, us, name, box, feats):
    idx = len(us)
    us.append(None)
    grid = []
    for a in range(3):
        pts = [box[0][a]]
        while pts[-1] < box[1][a]:
            step = rng.choice((2, 4)) if box[1][a] - pts[-1] >= 4 else 2
            pts.append(min(box[1][a], pts[-1] + step))
        if len(pts) > 3:
            pts = [pts[0], pts[1], pts[-1]]
        grid.append(pts)
    nx, ny, nz = [len(g) - 1 for g in grid]
    cache = {}
    cells = []
    for i in range(nx):
        for j in range(ny):
            for k in range(nz):
                s = (grid[0][i + 1] - grid[0][i], grid[1][j + 1] - grid[1][j], grid[2][k + 1] - grid[2][k])
                key = (s, rng.randrange(2))
                if key not in cache:
                    cache[key] = gen_unit(rng, us, "%sc%d" % (name, len(cache)), B(0, s[0], 0, s[1], 0, s[2]), 0, feats)
                cells.append({"name": "%s.c%d%d%d" % (name, i, j, k), "u": cache[key],
                              "t": [grid[0][i], grid[1][j], grid[2][k]], "m": I3})
    us[idx] = array(name, grid, cells)
    feats.add("array")
    return idx


def random_world(seed, big=False):
    rng = random.Random(seed)
    for attempt in range(50):
        sx, sy = rng.choice((6, 8, 10)) if big else rng.choice((4, 6, 8)), rng.choice((4, 6, 8))
        sz = rng.choice((2, 4, 6)) if big else rng.choice((2, 4))
        ox, oy, oz = [rng.choice((-4, -2, 0)) for _ in range(3)]
        box = B(ox, ox + sx, oy, oy + sy, oz, oz + sz)
        us = []
        feats = set()
        gen_unit(rng, us, "G", box, 2, feats)
        # re-index so that daughters always have a larger index than their parent (already true)
        w = world("rnd_%d" % seed, us, feats)
        try:
            check_world(w)
        except ValueError:
            continue
        if "daughter" in feats or attempt > 10:
            return w
    raise RuntimeError("could not generate a world for seed %d" % seed)


# ----------------------------------------------------------------------- curved worlds
# Non-lattice seeded worlds for the fixture pipeline (C03 boundary turns, C11 probes): boxes placed
# with ARBITRARY rotations / reflections and translations, holding spheres and cylinders, nested up
# to three levels.  vnav `dump` builds them through orangeinp and writes an ordinary .org.json, which
# the independent oracle reads like any other geometry file (the oracle's validity gate re-checks
# that nothing overlaps).  Disjointness is by construction (bounding spheres with a gap).
def _rand_rotation(rng):
    import math
    while True:
        q = [rng.gauss(0, 1) for _ in range(4)]
        nq = math.sqrt(sum(x * x for x in q))
        if nq > 1e-3:
            break
    a, b, c, d = [x / nq for x in q]
    m = [[a * a + b * b - c * c - d * d, 2 * (b * c - a * d), 2 * (b * d + a * c)],
         [2 * (b * c + a * d), a * a - b * b + c * c - d * d, 2 * (c * d - a * b)],
         [2 * (b * d - a * c), 2 * (c * d + a * b), a * a - b * b - c * c + d * d]]
    if rng.random() < 0.3:       # improper: reflect x
        m = [[-m[r][0], m[r][1], m[r][2]] for r in range(3)]
    return m


def _place(rng, half, radius, taken, gap=0.25, tries=200):
    """Centre of a ball of the given radius inside the box +-half, clear of the balls in `taken`."""
    if any(half[k] - radius - gap <= 0 for k in range(3)):
        return None
    for _ in range(tries):
        c = [rng.uniform(-(half[k] - radius - gap), half[k] - radius - gap) for k in range(3)]
        if all(sum((c[k] - o[k]) ** 2 for k in range(3)) > (radius + r + gap) ** 2 for o, r in taken):
            return c
    return None


def _solids(rng, name, half, taken, nmax, nonsimple=False):
    """Spheres and (axis-aligned) cylinders; with nonsimple also cones and ellipsoids, each under its own
    arbitrary rotation, i.e. surfaces WITHOUT a simple safety distance (kx/ky/kz, sq, gq) bounding the
    unit's background volume."""
    import math
    out = []
    for i in range(nmax):
        kind = rng.choice(("sphere", "cyl", "cone", "ell") if nonsimple else ("sphere", "cyl"))
        if nonsimple and i == 0:
            kind = rng.choice(("cone", "ell"))
        m = min(half)
        # the first sphere / cylinder of a universe sits at the local origin when that is free (centred
        # surface types sc, cxc / cyc / czc)
        centred = (i == 0 and not nonsimple and rng.random() < 0.6)

        def place(radius):
            if centred and all(sum(o[k] ** 2 for k in range(3)) > (radius + r0 + 0.25) ** 2 for o, r0 in taken) \
                    and all(half[k] - radius - 0.25 > 0 for k in range(3)):
                return [0.0, 0.0, 0.0]
            return _place(rng, half, radius, taken)
        if kind == "sphere":
            r = rng.uniform(0.5, 0.4 * m)
            c = place(r)
            if c is None:
                continue
            out.append({"name": "%s.s%d" % (name, i), "shape": "sphere", "c": c, "r": r})
            taken.append((c, r))
        elif kind == "cyl":
            r = rng.uniform(0.4, 0.3 * m)
            hh = rng.uniform(0.4, 0.3 * m)
            br = math.sqrt(r * r + hh * hh)
            c = place(br)
            if c is None:
                continue
            out.append({"name": "%s.c%d" % (name, i), "shape": "cyl", "c": c, "r": r, "hh": hh,
                        "axis": rng.randrange(3)})
            taken.append((c, br))
        elif kind == "cone":
            r0, r1 = rng.uniform(0.0, 0.15 * m), rng.uniform(0.3, 0.3 * m)
            if rng.random() < 0.5:
                r0, r1 = r1, r0
            hh = rng.uniform(0.5, 0.35 * m)
            br = math.sqrt(max(r0, r1) ** 2 + hh * hh)
            c = _place(rng, half, br, taken)
            if c is None:
                continue
            out.append({"name": "%s.k%d" % (name, i), "shape": "cone", "c": c, "r0": r0, "r1": r1, "hh": hh,
                        "R": _rand_rotation(rng) if rng.random() < 0.6 else None})
            taken.append((c, br))
        else:
            rad = [rng.uniform(0.4, 0.35 * m) for _ in range(3)]
            c = _place(rng, half, max(rad), taken)
            if c is None:
                continue
            out.append({"name": "%s.e%d" % (name, i), "shape": "ell", "c": c, "radii": rad,
                        "R": _rand_rotation(rng) if rng.random() < 0.6 else None})
            taken.append((c, max(rad)))
    return out


def curved_world(seed, nonsimple=False):
    import math
    rng = random.Random(seed * 7919 + 13 + (104729 if nonsimple else 0))
    us = [None]
    ghalf = [14.0, 14.0, 14.0]
    gtaken = []
    gd = []
    for k in range(rng.randint(2, 3)):
        half = [rng.uniform(3.0, 6.0) for _ in range(3)]
        c = _place(rng, ghalf, math.sqrt(sum(h * h for h in half)), gtaken)
        if c is None:
            continue
        gtaken.append((c, math.sqrt(sum(h * h for h in half))))
        name = "K%d" % k
        taken = []
        sub = []
        ui = len(us)
        us.append(None)
        if rng.random() < 0.6:           # a third level: a small rotated box inside this one
            h2 = [rng.uniform(1.2, 0.3 * min(half) + 1.0) for _ in range(3)]
            r2 = math.sqrt(sum(h * h for h in h2))
            c2 = _place(rng, half, r2, taken)
            if c2 is not None:
                taken.append((c2, r2))
                lname = name + "L"
                us.append({"name": lname, "half": h2, "solids": _solids(rng, lname, h2, [], 2, nonsimple), "daughters": [],
                           "bg": lname + ".bg"})
                sub.append({"u": len(us) - 1, "R": _rand_rotation(rng), "t": c2})
        us[ui] = {"name": name, "half": half, "solids": _solids(rng, name, half, taken, 3, nonsimple), "daughters": sub,
                  "bg": name + ".bg"}
        gd.append({"u": ui, "R": _rand_rotation(rng), "t": c})
    us[0] = {"name": "G", "half": ghalf, "solids": _solids(rng, "G", ghalf, gtaken, 2, nonsimple), "daughters": gd,
             "bg": "G.bg"}
    return {"name": ("crq_%d" if nonsimple else "crv_%d") % seed, "kind": "curved", "universes": us}


def write_world(w, outdir):
    npaths = check_world(w)
    w = dict(w)
    w["npaths"] = npaths
    path = os.path.join(outdir, w["name"] + ".json")
    with open(path, "w") as fh:
        json.dump(w, fh, separators=(",", ":"))
        fh.write("\n")
    return path


def main(argv):
    if argv[1] == "library":
        os.makedirs(argv[2], exist_ok=True)
        for w in library():
            print(write_world(w, argv[2]))
    elif argv[1] == "random":
        seed, n, out = int(argv[2]), int(argv[3]), argv[4]
        os.makedirs(out, exist_ok=True)
        for i in range(n):
            print(write_world(random_world(seed + i), out))
    elif argv[1] == "curved":
        seed, n, out = int(argv[2]), int(argv[3]), argv[4]
        os.makedirs(out, exist_ok=True)
        for i in range(n):
            w = curved_world(seed + i)
            path = os.path.join(out, w["name"] + ".json")
            json.dump(w, open(path, "w"))
            print(path)
    elif argv[1] == "check":
        for f in argv[2:]:
            print(f, check_world(json.load(open(f))))
    else:
        print(__doc__)
        return 2
    return 0


if __name__ == "__main__":
    sys.exit(main(sys.argv))
