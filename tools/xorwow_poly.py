#!/usr/bin/env python3
"""Characteristic polynomial of the xorwow xorshift step (C13), derived, not trusted.

  * Berlekamp-Massey on one output bit of the 160-bit xorshift recurrence
    (the step `next()` of XorwowRngEngine, transcribed here once more, independently of
    spec/Xorwow.tla) gives the minimal polynomial P of degree 160;
  * P(T) e_j = 0 is checked for the 160 basis vectors (TLC repeats this on the TLA+
    NextS in spec/XorwowMC.tla -- that is the check that counts);
  * optional: P is primitive (z has order 2^160-1 modulo P), using the complete
    factorisation of 2^160-1, which is verified here (product and Miller-Rabin).

Conventions (same as the TLA+ module and XorwowRngEngine::jump(JumpPoly const&)):
coefficient of z^m is bit (m % 32) of word (m // 32); a polynomial is a python int.

Usage:  xorwow_poly.py            print P, limbs for the TLA+ module, checks
        xorwow_poly.py --json     machine readable (used by tools/checks/c13.py)
        xorwow_poly.py --tables /repo/src/celeritas/random/XorwowRngParams.cc
                                  side check of the tables by parsing the source text
                                  (the real check uses the tables dumped from the library)
"""
import json
import re
import sys

M32 = 0xFFFFFFFF


def step(s):
    """One call of XorwowRngEngine::next() on a list of five 32-bit words."""
    t = s[0] ^ (s[0] >> 2)
    return [s[1], s[2], s[3], s[4],
            ((s[4] ^ ((s[4] << 4) & M32)) ^ (t ^ ((t << 1) & M32))) & M32]


def berlekamp_massey(bits):
    """Minimal LFSR (connection polynomial C, length L) of a GF(2) sequence."""
    n = len(bits)
    c, b = 1, 1          # polynomials as ints, bit i = coefficient of x^i
    L, m = 0, 1
    for i in range(n):
        d = bits[i]
        cc = c >> 1
        j = 1
        while cc:
            if cc & 1:
                d ^= bits[i - j]
            cc >>= 1
            j += 1
        if d == 0:
            m += 1
        elif 2 * L <= i:
            t = c
            c ^= b << m
            L = i + 1 - L
            b = t
            m = 1
        else:
            c ^= b << m
            m += 1
    return c, L


def charpoly():
    s = [0x12345678, 0x9ABCDEF0, 0x0F1E2D3C, 0x4B5A6978, 0x87654321]
    bits = []
    for _ in range(400):
        bits.append(s[4] & 1)
        s = step(s)
    c, L = berlekamp_massey(bits)
    # connection polynomial C(x) = 1 + c1 x + ... + cL x^L  <->  s_i = sum c_j s_{i-j};
    # characteristic polynomial P(z) = z^L C(1/z)
    p = 0
    for j in range(L + 1):
        if (c >> j) & 1:
            p |= 1 << (L - j)
    return p, L


def apply_poly(g, s):
    """g(T) s by Horner, the loop of XorwowRngEngine::jump(JumpPoly const&) (any degree)."""
    r = [0] * 5
    x = list(s)
    for m in range(g.bit_length()):
        if (g >> m) & 1:
            r = [a ^ b for a, b in zip(r, x)]
        x = step(x)
    return r


def mulmod(a, b, p, deg=160):
    r = 0
    for m in range(b.bit_length() - 1, -1, -1):
        r <<= 1
        if (r >> deg) & 1:
            r ^= p
        if (b >> m) & 1:
            r ^= a
    return r


def powmod(a, e, p):
    r = 1
    while e:
        if e & 1:
            r = mulmod(r, a, p)
        a = mulmod(a, a, p)
        e >>= 1
    return r


def is_prime(n):
    if n < 2:
        return False
    small = [2, 3, 5, 7, 11, 13, 17, 19, 23, 29, 31, 37, 41]
    for q in small:
        if n % q == 0:
            return n == q
    d, r = n - 1, 0
    while d % 2 == 0:
        d //= 2
        r += 1
    for a in small:          # deterministic for n < 3.3e24
        x = pow(a, d, n)
        if x in (1, n - 1):
            continue
        for _ in range(r - 1):
            x = x * x % n
            if x == n - 1:
                break
        else:
            return False
    return True


FACTORS_2_160_M1 = [3, 5, 5, 11, 17, 31, 41, 257, 61681, 65537, 414721, 4278255361, 44479210368001]


def primitive(p):
    n = (1 << 160) - 1
    prod = 1
    for q in FACTORS_2_160_M1:
        prod *= q
        assert is_prime(q), q
    assert prod == n, "factorisation of 2^160-1"
    z = 2
    if powmod(z, n, p) != 1:
        return False
    return all(powmod(z, n // q, p) != 1 for q in set(FACTORS_2_160_M1))


def limbs16(p, n=10):
    return [(p >> (16 * k)) & 0xFFFF for k in range(n)]


def parse_tables(path):
    txt = open(path).read()
    words = [int(w, 16) for w in re.findall(r"0x([0-9a-fA-F]{8})u", txt)]
    assert len(words) == 320, len(words)
    polys = []
    for i in range(64):
        w = words[5 * i:5 * i + 5]
        polys.append(sum(w[k] << (32 * k) for k in range(5)))
    return polys[:32], polys[32:]


def main():
    p, L = charpoly()
    ok_basis = all(apply_poly(p, [(1 << (j % 32)) if j // 32 == k else 0 for k in range(5)]) == [0] * 5
                   for j in range(160))
    out = {"degree": L, "P_hex": "%x" % p, "P_low_limbs16_le": limbs16(p & ((1 << 160) - 1)),
           "annihilates_basis": ok_basis}
    if "--primitive" in sys.argv or "--json" not in sys.argv:
        out["primitive"] = primitive(p)
    if "--tables" in sys.argv:
        jump, sub = parse_tables(sys.argv[sys.argv.index("--tables") + 1])
        g = 2
        bad = []
        for i in range(32):
            if jump[i] != g:
                bad.append(("jump", i))
            g = powmod(g, 4, p)
        g = powmod(jump[31], 32, p)
        for i in range(32):
            if sub[i] != g:
                bad.append(("jump_subsequence", i))
            g = powmod(g, 4, p)
        out["table_entries_violating_law"] = bad
    if "--json" in sys.argv:
        print(json.dumps(out))
    else:
        for k, v in out.items():
            print(k, "=", v)
        print("P = 0x" + "_".join(re.findall(".{1,8}", ("%041x" % p)[::-1]))[::-1])
    return 0 if (L == 160 and ok_basis) else 1


if __name__ == "__main__":
    sys.exit(main())
